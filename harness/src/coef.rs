//! E2 — coefficient model. The tables come from the *real* `precompute_coefficients` and the
//! *real* normalisers through the `cfg(fir_verif)` hook; the model is the one-line fixed-point
//! formula `clip((2^(p-1) + Σ k_i x_i) >> p)`.
use crate::alg::*;
use fast_image_resize::verif::{coefficients, CoefficientsDump};

#[derive(Clone, Copy, Debug, PartialEq)]
pub struct Geo {
    pub n_in: u32,
    pub crop: Crop1,
    pub n_out: u32,
    pub f: F,
    pub adaptive: bool,
}

pub fn dump(g: &Geo, want16: bool, want32: bool) -> CoefficientsDump {
    coefficients(g.n_in, g.crop.start, g.crop.start + g.crop.len, g.n_out, g.f.fir(), g.adaptive, want16, want32)
}

/// Exact prediction for 8-bit components (Normalizer16 tables).
pub fn predict_u8(d: &CoefficientsDump, j: usize, x: impl Fn(usize) -> i64) -> i64 {
    let p = d.precision16 as u32;
    let (start, ks) = &d.chunks16[j];
    let mut acc: i128 = 1i128 << (p - 1);
    for (i, &k) in ks.iter().enumerate() {
        acc += k as i128 * x(*start as usize + i) as i128;
    }
    ((acc >> p) as i64).clamp(0, 255)
}

/// Unclipped accumulator >> p for 8-bit (for the clip-table index invariant).
pub fn acc_shift_u8(d: &CoefficientsDump, j: usize, x: impl Fn(usize) -> i64) -> i128 {
    let p = d.precision16 as u32;
    let (start, ks) = &d.chunks16[j];
    let mut acc: i128 = 1i128 << (p - 1);
    for (i, &k) in ks.iter().enumerate() {
        acc += k as i128 * x(*start as usize + i) as i128;
    }
    acc >> p
}

/// Exact prediction for 16-bit components (Normalizer32 tables).
pub fn predict_u16(d: &CoefficientsDump, j: usize, x: impl Fn(usize) -> i64) -> i64 {
    let p = d.precision32 as u32;
    let (start, ks) = &d.chunks32[j];
    let mut acc: i128 = 1i128 << (p - 1);
    for (i, &k) in ks.iter().enumerate() {
        acc += k as i128 * x(*start as usize + i) as i128;
    }
    ((acc >> p) as i64).clamp(0, 65535)
}

/// f64 weights of output sample j as (first source index, weights).
pub fn weights(d: &CoefficientsDump, j: usize) -> (usize, &[f64]) {
    let (start, size) = d.bounds[j];
    let w = &d.values[j * d.window_size..j * d.window_size + size as usize];
    (start as usize, w)
}

/// Σ|w| of the (f64) normalised window j — the head-room premise.
pub fn sum_abs(d: &CoefficientsDump, j: usize) -> f64 {
    weights(d, j).1.iter().map(|w| w.abs()).sum()
}
