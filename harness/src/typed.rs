//! Bridges to the typed API (generic over the crate's pixel types).
use fast_image_resize::PixelTrait;

/// Dispatch a `PT` value to a block generic over the crate's pixel type.
#[macro_export]
macro_rules! with_pt {
    ($pt:expr, $P:ident => $body:expr) => {{
        use fast_image_resize::pixels as fp;
        match $pt {
            $crate::px::PT::U8 => {
                type $P = fp::U8;
                $body
            }
            $crate::px::PT::U8x2 => {
                type $P = fp::U8x2;
                $body
            }
            $crate::px::PT::U8x3 => {
                type $P = fp::U8x3;
                $body
            }
            $crate::px::PT::U8x4 => {
                type $P = fp::U8x4;
                $body
            }
            $crate::px::PT::U16 => {
                type $P = fp::U16;
                $body
            }
            $crate::px::PT::U16x2 => {
                type $P = fp::U16x2;
                $body
            }
            $crate::px::PT::U16x3 => {
                type $P = fp::U16x3;
                $body
            }
            $crate::px::PT::U16x4 => {
                type $P = fp::U16x4;
                $body
            }
            $crate::px::PT::I32 => {
                type $P = fp::I32;
                $body
            }
            $crate::px::PT::F32 => {
                type $P = fp::F32;
                $body
            }
            $crate::px::PT::F32x2 => {
                type $P = fp::F32x2;
                $body
            }
            $crate::px::PT::F32x3 => {
                type $P = fp::F32x3;
                $body
            }
            $crate::px::PT::F32x4 => {
                type $P = fp::F32x4;
                $body
            }
        }
    }};
}

/// View bytes as pixels (the buffer must be aligned and a whole number of pixels).
pub fn as_pixels<P: PixelTrait>(bytes: &[u8]) -> &[P] {
    let (head, mid, tail) = unsafe { bytes.align_to::<P>() };
    assert!(head.is_empty() && tail.is_empty(), "harness buffer not aligned for pixel type");
    mid
}

pub fn as_pixels_mut<P: PixelTrait>(bytes: &mut [u8]) -> &mut [P] {
    let (head, mid, tail) = unsafe { bytes.align_to_mut::<P>() };
    assert!(head.is_empty() && tail.is_empty(), "harness buffer not aligned for pixel type");
    mid
}

pub fn pixels_as_bytes<P: PixelTrait>(px: &[P]) -> &[u8] {
    unsafe { std::slice::from_raw_parts(px.as_ptr() as *const u8, std::mem::size_of_val(px)) }
}
