//! Guard-page buffers: the data sits flush against a PROT_NONE page, so that an over-read or
//! over-write of a single byte past the end (or before the start) is a SIGSEGV, which the
//! isolated explorer attributes to the running case.
use std::ptr;

pub const PAGE: usize = 4096;

pub struct GuardBuf {
    base: *mut u8,
    map_len: usize,
    data: *mut u8,
    len: usize,
}

unsafe impl Send for GuardBuf {}
unsafe impl Sync for GuardBuf {}

#[derive(Clone, Copy, Debug, PartialEq, Eq)]
pub enum Flush {
    /// data ends exactly where a guard page begins
    End,
    /// data begins exactly where a guard page ends
    Start,
}

impl GuardBuf {
    /// `len` bytes, zero-filled. With `Flush::End` the start address is `page_end - len`, so it is
    /// aligned for a pixel type whenever `len` is a multiple of the pixel size.
    pub fn new(len: usize, flush: Flush) -> GuardBuf {
        let data_pages = (len + PAGE - 1) / PAGE;
        let map_len = (data_pages.max(1) + 2) * PAGE;
        unsafe {
            let base = libc::mmap(
                ptr::null_mut(),
                map_len,
                libc::PROT_READ | libc::PROT_WRITE,
                libc::MAP_PRIVATE | libc::MAP_ANONYMOUS,
                -1,
                0,
            );
            assert!(base != libc::MAP_FAILED, "mmap failed");
            let base = base as *mut u8;
            // first and last page are guards
            assert_eq!(libc::mprotect(base as *mut _, PAGE, libc::PROT_NONE), 0);
            assert_eq!(libc::mprotect(base.add(map_len - PAGE) as *mut _, PAGE, libc::PROT_NONE), 0);
            let data = match flush {
                Flush::End => base.add(map_len - PAGE - len),
                Flush::Start => base.add(PAGE),
            };
            GuardBuf { base, map_len, data, len }
        }
    }
    pub fn from_bytes(bytes: &[u8], flush: Flush) -> GuardBuf {
        let mut g = GuardBuf::new(bytes.len(), flush);
        g.as_mut().copy_from_slice(bytes);
        g
    }
    pub fn as_ref(&self) -> &[u8] {
        unsafe { std::slice::from_raw_parts(self.data, self.len) }
    }
    pub fn as_mut(&mut self) -> &mut [u8] {
        unsafe { std::slice::from_raw_parts_mut(self.data, self.len) }
    }
    pub fn len(&self) -> usize {
        self.len
    }
}

impl Drop for GuardBuf {
    fn drop(&mut self) {
        unsafe {
            libc::munmap(self.base as *mut _, self.map_len);
        }
    }
}

// ---------------------------------------------------------------------------------------------
// Electric-fence global allocator (runtime switch)
// ---------------------------------------------------------------------------------------------
//
// While FENCE_ON is set, every heap block with alignment <= FENCE_MAX_ALIGN (the Resizer's Vec<u8>
// scratch buffers, the Vec<i16>/Vec<i32>/Vec<f64> coefficient chunks the SIMD kernels load with
// 8/16/32-byte reads) gets its own mapping with the data flush against a PROT_NONE page, so that a
// single byte of over-read/over-write is a SIGSEGV. Because the start address is
// `page_end - size`, byte buffers also come out misaligned (addresses ≡ 1,2,3 mod 4) for most
// sizes — the allocator's legal but rarely seen answer for align-1 requests.
use std::alloc::{GlobalAlloc, Layout, System};
use std::sync::atomic::{AtomicBool, AtomicUsize, Ordering};

pub static FENCE_ON: AtomicBool = AtomicBool::new(false);
pub static FENCE_MAX_ALIGN: AtomicUsize = AtomicUsize::new(8);
pub static FENCED_BLOCKS: AtomicUsize = AtomicUsize::new(0);

const SLOTS: usize = 1 << 14;
#[allow(clippy::declare_interior_mutable_const)]
const ZERO: AtomicUsize = AtomicUsize::new(0);
static TABLE: [AtomicUsize; SLOTS] = [ZERO; SLOTS];

fn slot_of(p: usize) -> usize {
    (p >> 4).wrapping_mul(0x9E3779B97F4A7C15usize) >> (usize::BITS as usize - 14)
}

fn table_insert(p: usize) -> bool {
    let mut i = slot_of(p);
    for _ in 0..SLOTS {
        // free slot or tombstone
        if TABLE[i].compare_exchange(0, p, Ordering::AcqRel, Ordering::Relaxed).is_ok() || TABLE[i].compare_exchange(1, p, Ordering::AcqRel, Ordering::Relaxed).is_ok() {
            return true;
        }
        i = (i + 1) & (SLOTS - 1);
    }
    false
}

fn table_remove(p: usize) -> bool {
    let mut i = slot_of(p);
    for _ in 0..SLOTS {
        let v = TABLE[i].load(Ordering::Acquire);
        if v == p {
            // tombstone = 1 (never a valid pointer) keeps probe chains intact
            TABLE[i].store(1, Ordering::Release);
            return true;
        }
        if v == 0 {
            return false;
        }
        i = (i + 1) & (SLOTS - 1);
    }
    false
}

pub struct Efence;

unsafe impl GlobalAlloc for Efence {
    unsafe fn alloc(&self, layout: Layout) -> *mut u8 {
        if FENCE_ON.load(Ordering::Relaxed) && layout.align() <= FENCE_MAX_ALIGN.load(Ordering::Relaxed) && layout.size() > 0 && layout.size() < (1 << 26) {
            let size = layout.size();
            // keep the requested alignment: round the size up to it for the placement
            let placed = (size + layout.align() - 1) / layout.align() * layout.align();
            let data_pages = (placed + PAGE - 1) / PAGE;
            let map_len = (data_pages + 1) * PAGE;
            let base = libc::mmap(ptr::null_mut(), map_len, libc::PROT_READ | libc::PROT_WRITE, libc::MAP_PRIVATE | libc::MAP_ANONYMOUS, -1, 0);
            if base != libc::MAP_FAILED {
                let base = base as *mut u8;
                libc::mprotect(base.add(map_len - PAGE) as *mut _, PAGE, libc::PROT_NONE);
                let p = base.add(map_len - PAGE - placed);
                if table_insert(p as usize) {
                    FENCED_BLOCKS.fetch_add(1, Ordering::Relaxed);
                    return p;
                }
                libc::munmap(base as *mut _, map_len);
            }
        }
        System.alloc(layout)
    }
    unsafe fn dealloc(&self, p: *mut u8, layout: Layout) {
        if table_remove(p as usize) {
            let placed = (layout.size() + layout.align() - 1) / layout.align() * layout.align();
            let data_pages = (placed + PAGE - 1) / PAGE;
            let map_len = (data_pages + 1) * PAGE;
            let base = (p as usize + placed) - data_pages * PAGE;
            libc::munmap(base as *mut _, map_len);
            return;
        }
        System.dealloc(p, layout)
    }
}

/// Run `f` with the fence switched on.
pub fn fenced<R>(f: impl FnOnce() -> R) -> R {
    let was = FENCE_ON.swap(true, Ordering::SeqCst);
    let r = f();
    FENCE_ON.store(was, Ordering::SeqCst);
    r
}
