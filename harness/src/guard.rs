//! Guard-page buffers: the data sits flush against a PROT_NONE page, so that an over-read or
//! over-write of a single byte past the end (or before the start) is a SIGSEGV, which the
//! isolated explorer attributes to the running case.
use std::ptr;

pub const PAGE: usize = 4096;

pub struct GuardBuf {
    base: *mut u8,
    map_len: usize,
    data: *mut u8,
    len: usize,
}

unsafe impl Send for GuardBuf {}
unsafe impl Sync for GuardBuf {}

#[derive(Clone, Copy, Debug, PartialEq, Eq)]
pub enum Flush {
    /// data ends exactly where a guard page begins
    End,
    /// data begins exactly where a guard page ends
    Start,
}

impl GuardBuf {
    /// `len` bytes, zero-filled. With `Flush::End` the start address is `page_end - len`, so it is
    /// aligned for a pixel type whenever `len` is a multiple of the pixel size.
    pub fn new(len: usize, flush: Flush) -> GuardBuf {
        let data_pages = (len + PAGE - 1) / PAGE;
        let map_len = (data_pages.max(1) + 2) * PAGE;
        unsafe {
            let base = libc::mmap(
                ptr::null_mut(),
                map_len,
                libc::PROT_READ | libc::PROT_WRITE,
                libc::MAP_PRIVATE | libc::MAP_ANONYMOUS,
                -1,
                0,
            );
            assert!(base != libc::MAP_FAILED, "mmap failed");
            let base = base as *mut u8;
            // first and last page are guards
            assert_eq!(libc::mprotect(base as *mut _, PAGE, libc::PROT_NONE), 0);
            assert_eq!(libc::mprotect(base.add(map_len - PAGE) as *mut _, PAGE, libc::PROT_NONE), 0);
            let data = match flush {
                Flush::End => base.add(map_len - PAGE - len),
                Flush::Start => base.add(PAGE),
            };
            GuardBuf { base, map_len, data, len }
        }
    }
    pub fn from_bytes(bytes: &[u8], flush: Flush) -> GuardBuf {
        let mut g = GuardBuf::new(bytes.len(), flush);
        g.as_mut().copy_from_slice(bytes);
        g
    }
    pub fn as_ref(&self) -> &[u8] {
        unsafe { std::slice::from_raw_parts(self.data, self.len) }
    }
    pub fn as_mut(&mut self) -> &mut [u8] {
        unsafe { std::slice::from_raw_parts_mut(self.data, self.len) }
    }
    pub fn len(&self) -> usize {
        self.len
    }
}

impl Drop for GuardBuf {
    fn drop(&mut self) {
        unsafe {
            libc::munmap(self.base as *mut _, self.map_len);
        }
    }
}
