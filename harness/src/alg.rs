//! Algorithm / filter alphabets, crop alphabets, and thin wrappers around the public resize API.
use crate::px::*;
use fast_image_resize as fir;
use fir::images::Image;
use fir::{Filter, FilterType, ResizeAlg, ResizeError, ResizeOptions, Resizer};
use serde::{Deserialize, Serialize};

#[derive(Clone, Copy, Debug, PartialEq, Eq, Hash, Serialize, Deserialize)]
pub enum F {
    Box,
    Bilinear,
    Hamming,
    CatmullRom,
    Mitchell,
    Gaussian,
    Lanczos3,
    /// custom kernels, see `custom_filter`
    Custom(u8),
}

pub const FILT: [F; 7] = [F::Box, F::Bilinear, F::Hamming, F::CatmullRom, F::Mitchell, F::Gaussian, F::Lanczos3];
pub const NONNEG: [F; 4] = [F::Box, F::Bilinear, F::Hamming, F::Gaussian];

// ---- custom kernels (CUSTOM alphabet of DESIGN §3) -------------------------------------------
// sharp(b): piecewise-constant kernel with taps (-b, 1+2b, -b) at unit spacing, support 1.5
fn sharp(x: f64, b: f64) -> f64 {
    let a = x.abs();
    if a < 0.5 {
        1.0 + 2.0 * b
    } else if a < 1.5 {
        -b
    } else {
        0.0
    }
}
fn sharp025(x: f64) -> f64 {
    sharp(x, 0.25)
}
fn sharp05(x: f64) -> f64 {
    sharp(x, 0.5)
}
fn sharp07(x: f64) -> f64 {
    sharp(x, 0.7)
}
fn sinc(x: f64) -> f64 {
    if x == 0.0 {
        1.0
    } else {
        let x = x * std::f64::consts::PI;
        x.sin() / x
    }
}
fn lanczos4(x: f64) -> f64 {
    if (-4.0..4.0).contains(&x) {
        sinc(x) * sinc(x / 4.)
    } else {
        0.0
    }
}
// wild kernels: sum |w| after normalisation = 4, 8, 17, 40, 1e6; zero-mean
fn wild(x: f64, b: f64) -> f64 {
    sharp(x, b)
}
fn wild4(x: f64) -> f64 {
    wild(x, 0.75)
}
fn wild8(x: f64) -> f64 {
    wild(x, 1.75)
}
fn wild17(x: f64) -> f64 {
    wild(x, 4.0)
}
fn wild40(x: f64) -> f64 {
    wild(x, 9.75)
}
fn wild1e6(x: f64) -> f64 {
    wild(x, 249999.75)
}
fn zeromean(x: f64) -> f64 {
    let a = x.abs();
    if a < 0.5 {
        2.0
    } else if a < 1.5 {
        -1.0
    } else {
        0.0
    }
}
fn negative_only(x: f64) -> f64 {
    if x.abs() < 1.5 {
        -1.0
    } else {
        0.0
    }
}
fn nan_kernel(x: f64) -> f64 {
    if x.abs() < 0.5 {
        f64::NAN
    } else {
        1.0
    }
}
fn huge_kernel(x: f64) -> f64 {
    if x.abs() < 0.5 {
        1e300
    } else {
        -1e300
    }
}
fn tiny_kernel(x: f64) -> f64 {
    if x.abs() < 1.5 {
        5e-324
    } else {
        0.0
    }
}

pub const N_CUSTOM: u8 = 14;
/// ids 0..=3: within the documented head-room (sum|w| < 4): sharp025, sharp05, sharp07, lanczos4
pub const HEADROOM_CUSTOM: [u8; 4] = [0, 1, 2, 3];
/// ids 4..: wild — only memory safety is required
pub const WILD_CUSTOM: [u8; 10] = [4, 5, 6, 7, 8, 9, 10, 11, 12, 13];

pub fn custom_filter(id: u8) -> Filter {
    match id {
        0 => Filter::new("sharp025", sharp025, 1.5),
        1 => Filter::new("sharp05", sharp05, 1.5),
        2 => Filter::new("sharp07", sharp07, 1.5),
        3 => Filter::new("lanczos4", lanczos4, 4.0),
        4 => Filter::new("wild4", wild4, 1.5),
        5 => Filter::new("wild8", wild8, 1.5),
        6 => Filter::new("wild17", wild17, 1.5),
        7 => Filter::new("wild40", wild40, 1.5),
        8 => Filter::new("wild1e6", wild1e6, 1.5),
        9 => Filter::new("zeromean", zeromean, 1.5),
        10 => Filter::new("negative", negative_only, 1.5),
        11 => Filter::new("nan", nan_kernel, 1.5),
        12 => Filter::new("huge", huge_kernel, 1.5),
        _ => Filter::new("tiny", tiny_kernel, 1.5),
    }
    .unwrap()
}

/// The harness' own evaluation of a kernel (written from the published definitions, not copied
/// through a hook). Returns (value, support).
pub fn kernel(f: F) -> (fn(f64) -> f64, f64) {
    fn k_box(x: f64) -> f64 {
        if x > -0.5 && x <= 0.5 {
            1.0
        } else {
            0.0
        }
    }
    fn k_bilinear(x: f64) -> f64 {
        let x = x.abs();
        if x < 1.0 {
            1.0 - x
        } else {
            0.0
        }
    }
    fn k_hamming(x: f64) -> f64 {
        let x = x.abs();
        if x == 0.0 {
            1.0
        } else if x >= 1.0 {
            0.0
        } else {
            let x = x * std::f64::consts::PI;
            (0.54 + 0.46 * x.cos()) * x.sin() / x
        }
    }
    fn k_catmull(x: f64) -> f64 {
        // Keys cubic, a = -1/2
        let x = x.abs();
        if x < 1.0 {
            1.5 * x * x * x - 2.5 * x * x + 1.0
        } else if x < 2.0 {
            -0.5 * x * x * x + 2.5 * x * x - 4.0 * x + 2.0
        } else {
            0.0
        }
    }
    fn k_mitchell(x: f64) -> f64 {
        // Mitchell-Netravali, B = C = 1/3
        let (b, c) = (1.0 / 3.0, 1.0 / 3.0);
        let x = x.abs();
        if x < 1.0 {
            ((12.0 - 9.0 * b - 6.0 * c) * x * x * x + (-18.0 + 12.0 * b + 6.0 * c) * x * x + (6.0 - 2.0 * b)) / 6.0
        } else if x < 2.0 {
            ((-b - 6.0 * c) * x * x * x + (6.0 * b + 30.0 * c) * x * x + (-12.0 * b - 48.0 * c) * x + (8.0 * b + 24.0 * c))
                / 6.0
        } else {
            0.0
        }
    }
    fn k_gauss(x: f64) -> f64 {
        // normal density, sigma = 0.5, cut at |x| = 3 (half-open like the documentation's range)
        if (-3.0..3.0).contains(&x) {
            let r = 0.5;
            (-(x * x) / (2.0 * r * r)).exp() / ((2.0 * std::f64::consts::PI).sqrt() * r)
        } else {
            0.0
        }
    }
    fn k_lanczos3(x: f64) -> f64 {
        if (-3.0..3.0).contains(&x) {
            sinc(x) * sinc(x / 3.0)
        } else {
            0.0
        }
    }
    match f {
        F::Box => (k_box, 0.5),
        F::Bilinear => (k_bilinear, 1.0),
        F::Hamming => (k_hamming, 1.0),
        F::CatmullRom => (k_catmull, 2.0),
        F::Mitchell => (k_mitchell, 2.0),
        F::Gaussian => (k_gauss, 3.0),
        F::Lanczos3 => (k_lanczos3, 3.0),
        F::Custom(id) => match id {
            0 => (sharp025, 1.5),
            1 => (sharp05, 1.5),
            2 => (sharp07, 1.5),
            3 => (lanczos4, 4.0),
            4 => (wild4, 1.5),
            5 => (wild8, 1.5),
            6 => (wild17, 1.5),
            7 => (wild40, 1.5),
            8 => (wild1e6, 1.5),
            9 => (zeromean, 1.5),
            10 => (negative_only, 1.5),
            11 => (nan_kernel, 1.5),
            12 => (huge_kernel, 1.5),
            _ => (tiny_kernel, 1.5),
        },
    }
}

/// Arguments at which the kernel is discontinuous (a sample centre landing there makes the ideal
/// weight undefined; the oracle widens instead of asserting).
pub fn discontinuities(f: F) -> &'static [f64] {
    match f {
        F::Box => &[-0.5, 0.5],
        F::Gaussian => &[-3.0, 3.0],
        F::Custom(3) => &[],
        F::Custom(_) => &[-1.5, -0.5, 0.5, 1.5],
        _ => &[],
    }
}

impl F {
    pub fn fir(self) -> FilterType {
        match self {
            F::Box => FilterType::Box,
            F::Bilinear => FilterType::Bilinear,
            F::Hamming => FilterType::Hamming,
            F::CatmullRom => FilterType::CatmullRom,
            F::Mitchell => FilterType::Mitchell,
            F::Gaussian => FilterType::Gaussian,
            F::Lanczos3 => FilterType::Lanczos3,
            F::Custom(id) => FilterType::Custom(custom_filter(id)),
        }
    }
    pub fn is_nonneg(self) -> bool {
        NONNEG.contains(&self)
    }
}

#[derive(Clone, Copy, Debug, PartialEq, Eq, Hash, Serialize, Deserialize)]
pub enum Alg {
    Nearest,
    Conv(F),
    Interp(F),
    SS(F, u8),
}

impl Alg {
    pub fn fir(self) -> ResizeAlg {
        match self {
            Alg::Nearest => ResizeAlg::Nearest,
            Alg::Conv(f) => ResizeAlg::Convolution(f.fir()),
            Alg::Interp(f) => ResizeAlg::Interpolation(f.fir()),
            Alg::SS(f, m) => ResizeAlg::SuperSampling(f.fir(), m),
        }
    }
    pub fn filter(self) -> Option<F> {
        match self {
            Alg::Nearest => None,
            Alg::Conv(f) | Alg::Interp(f) | Alg::SS(f, _) => Some(f),
        }
    }
}

/// 1-D crop as (start, length) in source pixels.
#[derive(Clone, Copy, Debug, PartialEq, Serialize, Deserialize)]
pub struct Crop1 {
    pub start: f64,
    pub len: f64,
}

/// CROP1(n) — the valid 1-D crop alphabet of DESIGN §3 (members that are not valid for this n are dropped).
pub fn crop1_alphabet(n: u32) -> Vec<Crop1> {
    let nf = n as f64;
    let mut v = vec![Crop1 { start: 0.0, len: nf }];
    let mut push = |s: f64, l: f64| {
        if s >= 0.0 && l > 0.0 && s < nf && s + l <= nf && !v.iter().any(|c| c.start == s && c.len == l) {
            v.push(Crop1 { start: s, len: l });
        }
    };
    push(1.0, nf - 1.0);
    push(0.0, nf - 1.0);
    push(1.0, nf - 2.0);
    push(nf - 1.0, 1.0);
    push(0.5, nf - 1.0);
    push(0.25, nf - 0.5);
    push(0.3, nf - 0.6);
    push(nf - 0.5, 0.5);
    let e20 = (2.0f64).powi(-20);
    push(nf - e20, e20);
    push(nf * (1.0 - f64::EPSILON), nf * f64::EPSILON);
    push(0.0, e20);
    push((n / 2) as f64, 0.37);
    // integer origin, fractional size: truncating the size gives an integer destination size
    push(0.0, nf - 0.5);
    push(1.0, nf - 1.5);
    // origin a hair below an integer, integer size: must NOT be treated as the integer box
    push(1.0 - (2.0f64).powi(-30), nf - 1.0);
    // interior box with margins of about a third of the image on both sides
    if n >= 6 {
        push((n / 3) as f64, (n / 3) as f64);
    }
    v
}

/// A smaller sub-alphabet: full, integer offset, fractional, flush-right sub-pixel.
pub fn crop1_small(n: u32) -> Vec<Crop1> {
    let a = crop1_alphabet(n);
    let nf = n as f64;
    let want: Vec<(f64, f64)> = vec![(0.0, nf), (1.0, nf - 1.0), (0.25, nf - 0.5), (nf - 0.5, 0.5), (0.3, nf - 0.6), (0.0, nf - 0.5)];
    a.into_iter().filter(|c| want.iter().any(|w| w.0 == c.start && w.1 == c.len)).collect()
}

/// Invalid coordinate alphabet (C03/C04).
pub fn invalid_coords(n: u32) -> Vec<f64> {
    let nf = n as f64;
    vec![
        f64::NEG_INFINITY,
        -1e300,
        -1.0,
        -0.5,
        -5e-324,
        -0.0,
        f64::NAN,
        nf + (2.0f64).powi(-40),
        nf + 1.0,
        1e300,
        f64::INFINITY,
    ]
}

#[derive(Clone, Copy, Debug)]
pub struct Opts {
    pub alg: Alg,
    pub cx: Option<Crop1>,
    pub cy: Option<Crop1>,
    pub alpha: bool,
}

impl Opts {
    pub fn new(alg: Alg) -> Self {
        Opts { alg, cx: None, cy: None, alpha: false }
    }
    pub fn to_fir(&self, src_w: u32, src_h: u32) -> ResizeOptions {
        let mut o = ResizeOptions::new().resize_alg(self.alg.fir()).use_alpha(self.alpha);
        if self.cx.is_some() || self.cy.is_some() {
            let cx = self.cx.unwrap_or(Crop1 { start: 0.0, len: src_w as f64 });
            let cy = self.cy.unwrap_or(Crop1 { start: 0.0, len: src_h as f64 });
            o = o.crop(cx.start, cy.start, cx.len, cy.len);
        }
        o
    }
}

pub fn new_resizer(be: BE) -> Resizer {
    let mut r = Resizer::new();
    unsafe { r.set_cpu_extensions(be.fir()) };
    r
}

/// Resize `src` into a fresh zeroed destination through the dynamic entry point.
pub fn resize_raw(rz: &mut Resizer, src: &Raw, dw: u32, dh: u32, opts: &Opts) -> Result<Raw, ResizeError> {
    let mut dst = Raw::new(src.pt, dw, dh);
    resize_into(rz, src, &mut dst, opts)?;
    Ok(dst)
}

pub fn resize_into(rz: &mut Resizer, src: &Raw, dst: &mut Raw, opts: &Opts) -> Result<(), ResizeError> {
    let o = opts.to_fir(src.w, src.h);
    let s = src.image_ref();
    let (w, h, pt) = (dst.w, dst.h, dst.pt.fir());
    let mut d = Image::from_slice_u8(w, h, dst.buf.as_mut(), pt).unwrap();
    rz.resize(&s, &mut d, &o)
}
