//! Pixel-type plumbing: a neutral raw image (`Raw`) the harness owns, with
//! component access as f64, and bridges to the crate's dynamic containers.
use fast_image_resize as fir;
use fir::images::{Image, ImageRef};
use fir::{CpuExtensions, PixelType};
use serde::{Deserialize, Serialize};

#[derive(Clone, Copy, Debug, PartialEq, Eq, Hash, PartialOrd, Ord, Serialize, Deserialize)]
pub enum PT {
    U8,
    U8x2,
    U8x3,
    U8x4,
    U16,
    U16x2,
    U16x3,
    U16x4,
    I32,
    F32,
    F32x2,
    F32x3,
    F32x4,
}

pub const ALL_PT: [PT; 13] = [
    PT::U8,
    PT::U8x2,
    PT::U8x3,
    PT::U8x4,
    PT::U16,
    PT::U16x2,
    PT::U16x3,
    PT::U16x4,
    PT::I32,
    PT::F32,
    PT::F32x2,
    PT::F32x3,
    PT::F32x4,
];

pub const ALPHA_PT: [PT; 6] = [PT::U8x2, PT::U8x4, PT::U16x2, PT::U16x4, PT::F32x2, PT::F32x4];

#[derive(Clone, Copy, Debug, PartialEq, Eq, Hash, Serialize, Deserialize)]
pub enum CK {
    U8,
    U16,
    I32,
    F32,
}

impl CK {
    pub fn size(self) -> usize {
        match self {
            CK::U8 => 1,
            CK::U16 => 2,
            _ => 4,
        }
    }
    pub fn max(self) -> f64 {
        match self {
            CK::U8 => 255.0,
            CK::U16 => 65535.0,
            CK::I32 => i32::MAX as f64,
            CK::F32 => 1.0,
        }
    }
    pub fn min(self) -> f64 {
        match self {
            CK::I32 => i32::MIN as f64,
            _ => 0.0,
        }
    }
    pub fn is_int(self) -> bool {
        !matches!(self, CK::F32)
    }
}

impl PT {
    pub fn fir(self) -> PixelType {
        match self {
            PT::U8 => PixelType::U8,
            PT::U8x2 => PixelType::U8x2,
            PT::U8x3 => PixelType::U8x3,
            PT::U8x4 => PixelType::U8x4,
            PT::U16 => PixelType::U16,
            PT::U16x2 => PixelType::U16x2,
            PT::U16x3 => PixelType::U16x3,
            PT::U16x4 => PixelType::U16x4,
            PT::I32 => PixelType::I32,
            PT::F32 => PixelType::F32,
            PT::F32x2 => PixelType::F32x2,
            PT::F32x3 => PixelType::F32x3,
            PT::F32x4 => PixelType::F32x4,
        }
    }
    pub fn ck(self) -> CK {
        match self {
            PT::U8 | PT::U8x2 | PT::U8x3 | PT::U8x4 => CK::U8,
            PT::U16 | PT::U16x2 | PT::U16x3 | PT::U16x4 => CK::U16,
            PT::I32 => CK::I32,
            _ => CK::F32,
        }
    }
    pub fn ncomp(self) -> usize {
        match self {
            PT::U8 | PT::U16 | PT::I32 | PT::F32 => 1,
            PT::U8x2 | PT::U16x2 | PT::F32x2 => 2,
            PT::U8x3 | PT::U16x3 | PT::F32x3 => 3,
            _ => 4,
        }
    }
    pub fn psize(self) -> usize {
        self.ck().size() * self.ncomp()
    }
    pub fn has_alpha(self) -> bool {
        ALPHA_PT.contains(&self)
    }
    /// Pixel type with `n` components of the same component kind, if it exists.
    pub fn with_ncomp(self, n: usize) -> Option<PT> {
        ALL_PT
            .iter()
            .copied()
            .find(|p| p.ck() == self.ck() && p.ncomp() == n)
    }
    pub fn of(ck: CK, n: usize) -> Option<PT> {
        ALL_PT.iter().copied().find(|p| p.ck() == ck && p.ncomp() == n)
    }
    pub fn idx(self) -> usize {
        ALL_PT.iter().position(|p| *p == self).unwrap()
    }
}

#[derive(Clone, Copy, Debug, PartialEq, Eq, Hash, PartialOrd, Ord, Serialize, Deserialize)]
pub enum BE {
    None,
    Sse4_1,
    Avx2,
}

impl BE {
    pub fn fir(self) -> CpuExtensions {
        match self {
            BE::None => CpuExtensions::None,
            BE::Sse4_1 => CpuExtensions::Sse4_1,
            BE::Avx2 => CpuExtensions::Avx2,
        }
    }
}

/// Back-ends available on this host (always contains `None`).
pub fn backends() -> Vec<BE> {
    [BE::None, BE::Sse4_1, BE::Avx2]
        .into_iter()
        .filter(|b| b.fir().is_supported())
        .collect()
}

/// 16-byte aligned byte buffer.
#[derive(Clone)]
pub struct ABuf {
    v: Vec<u128>,
    len: usize,
}

impl ABuf {
    pub fn new(len: usize) -> Self {
        Self { v: vec![0u128; (len + 15) / 16 + 1], len }
    }
    pub fn filled(len: usize, byte: u8) -> Self {
        let mut b = Self::new(len);
        b.as_mut().fill(byte);
        b
    }
    pub fn len(&self) -> usize {
        self.len
    }
    pub fn as_ref(&self) -> &[u8] {
        unsafe { std::slice::from_raw_parts(self.v.as_ptr() as *const u8, self.len) }
    }
    pub fn as_mut(&mut self) -> &mut [u8] {
        unsafe { std::slice::from_raw_parts_mut(self.v.as_mut_ptr() as *mut u8, self.len) }
    }
}

/// Component read from raw little-endian bytes at component index `ci`.
#[inline]
pub fn get_comp(ck: CK, bytes: &[u8], ci: usize) -> f64 {
    match ck {
        CK::U8 => bytes[ci] as f64,
        CK::U16 => u16::from_le_bytes([bytes[2 * ci], bytes[2 * ci + 1]]) as f64,
        CK::I32 => i32::from_le_bytes(bytes[4 * ci..4 * ci + 4].try_into().unwrap()) as f64,
        CK::F32 => f32::from_le_bytes(bytes[4 * ci..4 * ci + 4].try_into().unwrap()) as f64,
    }
}

#[inline]
pub fn set_comp(ck: CK, bytes: &mut [u8], ci: usize, v: f64) {
    match ck {
        CK::U8 => bytes[ci] = v as u8,
        CK::U16 => bytes[2 * ci..2 * ci + 2].copy_from_slice(&(v as u16).to_le_bytes()),
        CK::I32 => bytes[4 * ci..4 * ci + 4].copy_from_slice(&(v as i32).to_le_bytes()),
        CK::F32 => bytes[4 * ci..4 * ci + 4].copy_from_slice(&(v as f32).to_le_bytes()),
    }
}

/// A raw image owned by the harness: tightly packed rows, aligned buffer.
#[derive(Clone)]
pub struct Raw {
    pub pt: PT,
    pub w: u32,
    pub h: u32,
    pub buf: ABuf,
}

impl Raw {
    pub fn new(pt: PT, w: u32, h: u32) -> Self {
        Self { pt, w, h, buf: ABuf::new(w as usize * h as usize * pt.psize()) }
    }
    pub fn filled(pt: PT, w: u32, h: u32, byte: u8) -> Self {
        Self { pt, w, h, buf: ABuf::filled(w as usize * h as usize * pt.psize(), byte) }
    }
    pub fn from_fn(pt: PT, w: u32, h: u32, mut f: impl FnMut(u32, u32, usize) -> f64) -> Self {
        let mut r = Self::new(pt, w, h);
        let nc = pt.ncomp();
        for y in 0..h {
            for x in 0..w {
                for c in 0..nc {
                    let v = f(x, y, c);
                    r.set(x, y, c, v);
                }
            }
        }
        r
    }
    #[inline]
    pub fn get(&self, x: u32, y: u32, c: usize) -> f64 {
        let ci = (y as usize * self.w as usize + x as usize) * self.pt.ncomp() + c;
        get_comp(self.pt.ck(), self.buf.as_ref(), ci)
    }
    #[inline]
    pub fn set(&mut self, x: u32, y: u32, c: usize, v: f64) {
        let ci = (y as usize * self.w as usize + x as usize) * self.pt.ncomp() + c;
        let ck = self.pt.ck();
        set_comp(ck, self.buf.as_mut(), ci, v)
    }
    pub fn bytes(&self) -> &[u8] {
        self.buf.as_ref()
    }
    pub fn bytes_mut(&mut self) -> &mut [u8] {
        self.buf.as_mut()
    }
    pub fn image_ref(&self) -> ImageRef<'_> {
        ImageRef::new(self.w, self.h, self.buf.as_ref(), self.pt.fir()).unwrap()
    }
    pub fn image_mut(&mut self) -> Image<'_> {
        let (w, h, pt) = (self.w, self.h, self.pt.fir());
        Image::from_slice_u8(w, h, self.buf.as_mut(), pt).unwrap()
    }
    /// Transposed copy (x <-> y).
    pub fn transposed(&self) -> Raw {
        let mut t = Raw::new(self.pt, self.h, self.w);
        let ps = self.pt.psize();
        for y in 0..self.h as usize {
            for x in 0..self.w as usize {
                let s = (y * self.w as usize + x) * ps;
                let d = (x * self.h as usize + y) * ps;
                let px: Vec<u8> = self.buf.as_ref()[s..s + ps].to_vec();
                t.buf.as_mut()[d..d + ps].copy_from_slice(&px);
            }
        }
        t
    }
    pub fn pixel_bytes(&self, x: u32, y: u32) -> &[u8] {
        let ps = self.pt.psize();
        let s = (y as usize * self.w as usize + x as usize) * ps;
        &self.buf.as_ref()[s..s + ps]
    }
}

/// FNV-1a, used for cheap deterministic hashing of outcomes / classes.
#[inline]
pub fn fnv(bytes: &[u8]) -> u64 {
    let mut h = 0xcbf29ce484222325u64;
    for &b in bytes {
        h ^= b as u64;
        h = h.wrapping_mul(0x100000001b3);
    }
    h
}

#[inline]
pub fn mix(a: u64, b: u64) -> u64 {
    let mut h = a ^ b.wrapping_mul(0x9E3779B97F4A7C15);
    h ^= h >> 29;
    h = h.wrapping_mul(0xBF58476D1CE4E5B9);
    h ^= h >> 32;
    h
}

/// Fixed linear congruential stream (a member of the content alphabet, not a sample).
#[derive(Clone)]
pub struct Lcg(pub u64);

impl Lcg {
    pub fn new(seed: u64) -> Self {
        Lcg(seed.wrapping_mul(0x9E3779B97F4A7C15) ^ 0xD1B54A32D192ED03)
    }
    #[inline]
    pub fn next(&mut self) -> u64 {
        self.0 = self.0.wrapping_mul(6364136223846793005).wrapping_add(1442695040888963407);
        let mut x = self.0;
        x ^= x >> 33;
        x = x.wrapping_mul(0xff51afd7ed558ccd);
        x ^= x >> 33;
        x
    }
    /// Value for a component of kind `ck`, over the full range (floats in [0,1]).
    pub fn comp(&mut self, ck: CK) -> f64 {
        let r = self.next();
        match ck {
            CK::U8 => (r & 0xff) as f64,
            CK::U16 => (r & 0xffff) as f64,
            CK::I32 => (r as u32 as i32) as f64,
            CK::F32 => ((r >> 40) as f32 / (1u64 << 24) as f32) as f64,
        }
    }
}
