//! Container / memory-layout matrix shared by C05, C13 and C03: the same logical operation is
//! driven through every kind of source and destination container the public API offers, with
//! sentinel-filled surroundings and (optionally) guard pages right behind the buffers.
use crate::alg::*;
use crate::guard::{Flush, GuardBuf};
use crate::px::*;
use crate::typed::*;
use crate::with_pt;
use fast_image_resize as fir;
use fir::images::{CroppedImage, CroppedImageMut, Image, ImageRef, TypedCroppedImage, TypedCroppedImageMut, TypedImage, TypedImageRef};
use fir::{ImageView, ImageViewMut, IntoImageView, IntoImageViewMut, MulDiv, PixelComponentMapper, PixelTrait, ResizeOptions, Resizer};

#[derive(Clone, Copy, Debug, PartialEq, Eq, Hash)]
pub enum SrcK {
    // dynamic containers
    ImgOwned,
    ImgSlice,
    RefNew,
    RefFromPixels,
    CropOfRef,
    CropOfImg,
    /// a *mutable* dynamic crop (CroppedImageMut) in the source role: its read-only view is a
    /// separate implementation from CroppedImage's
    CropMutAsSrc,
    // typed containers
    TRef,
    TImgOwned,
    TCropFromRef,
    TCropNew,
    TCropNested,
}

#[derive(Clone, Copy, Debug, PartialEq, Eq, Hash)]
pub enum DstK {
    // dynamic
    ImgOwned,
    ImgVecSpare,
    ImgSlice,
    ImgSliceSpare,
    CropMutOfImg,
    // typed
    TSlice,
    TSliceSpare,
    TBufferSpare,
    TCropMutNew,
    TCropMutFromRef,
    TCropMutNested,
}

pub const DYN_SRC: [SrcK; 7] = [SrcK::ImgOwned, SrcK::ImgSlice, SrcK::RefNew, SrcK::RefFromPixels, SrcK::CropOfRef, SrcK::CropOfImg, SrcK::CropMutAsSrc];
pub const TYPED_SRC: [SrcK; 5] = [SrcK::TRef, SrcK::TImgOwned, SrcK::TCropFromRef, SrcK::TCropNew, SrcK::TCropNested];
pub const DYN_DST: [DstK; 5] = [DstK::ImgOwned, DstK::ImgVecSpare, DstK::ImgSlice, DstK::ImgSliceSpare, DstK::CropMutOfImg];
pub const TYPED_DST: [DstK; 6] = [DstK::TSlice, DstK::TSliceSpare, DstK::TBufferSpare, DstK::TCropMutNew, DstK::TCropMutFromRef, DstK::TCropMutNested];

impl SrcK {
    pub fn is_dynamic(self) -> bool {
        DYN_SRC.contains(&self)
    }
    pub fn is_crop(self) -> bool {
        matches!(self, SrcK::CropOfRef | SrcK::CropOfImg | SrcK::CropMutAsSrc | SrcK::TCropFromRef | SrcK::TCropNew | SrcK::TCropNested)
    }
}
impl DstK {
    pub fn is_dynamic(self) -> bool {
        DYN_DST.contains(&self)
    }
    pub fn is_crop(self) -> bool {
        matches!(self, DstK::CropMutOfImg | DstK::TCropMutNew | DstK::TCropMutFromRef | DstK::TCropMutNested)
    }
    pub fn has_spare(self) -> bool {
        matches!(self, DstK::ImgVecSpare | DstK::ImgSliceSpare | DstK::TSliceSpare | DstK::TBufferSpare)
    }
}

/// Placement of a view inside its parent: left/top offset and right/bottom margins (pixels).
#[derive(Clone, Copy, Debug, PartialEq, Eq, Hash)]
pub struct Place {
    pub l: u32,
    pub t: u32,
    pub mr: u32,
    pub mb: u32,
}
impl Place {
    pub const NONE: Place = Place { l: 0, t: 0, mr: 0, mb: 0 };
}

#[derive(Clone, Copy, Debug, PartialEq, Eq)]
pub enum Mem {
    Plain,
    /// data ends at a PROT_NONE page
    FencedEnd,
    /// data starts right after a PROT_NONE page
    FencedStart,
}

/// A physical buffer, plain or fenced.
pub enum PBuf {
    Plain(ABuf),
    Guard(GuardBuf),
}
impl PBuf {
    pub fn new(len: usize, mem: Mem, fill: u8) -> PBuf {
        match mem {
            Mem::Plain => PBuf::Plain(ABuf::filled(len, fill)),
            Mem::FencedEnd => {
                let mut g = GuardBuf::new(len, Flush::End);
                g.as_mut().fill(fill);
                PBuf::Guard(g)
            }
            Mem::FencedStart => {
                let mut g = GuardBuf::new(len, Flush::Start);
                g.as_mut().fill(fill);
                PBuf::Guard(g)
            }
        }
    }
    pub fn as_ref(&self) -> &[u8] {
        match self {
            PBuf::Plain(a) => a.as_ref(),
            PBuf::Guard(g) => g.as_ref(),
        }
    }
    pub fn as_mut(&mut self) -> &mut [u8] {
        match self {
            PBuf::Plain(a) => a.as_mut(),
            PBuf::Guard(g) => g.as_mut(),
        }
    }
}

/// Physical source: the logical image embedded in its parent (filler pixels around it).
pub struct PhysSrc {
    pub pt: PT,
    pub w: u32,
    pub h: u32,
    pub pw: u32,
    pub ph: u32,
    pub place: Place,
    pub buf: PBuf,
}

pub fn filler_byte(x: u32, y: u32, i: usize) -> u8 {
    // distinct from typical content so that reading outside the view changes the result
    (0xC3u32 ^ (x * 37 + y * 101 + i as u32 * 11)) as u8 | 0x80
}

impl PhysSrc {
    pub fn new(src: &Raw, kind: SrcK, place: Place, mem: Mem) -> PhysSrc {
        let place = if kind.is_crop() { place } else { Place::NONE };
        let (pw, ph) = (place.l + src.w + place.mr, place.t + src.h + place.mb);
        let ps = src.pt.psize();
        let mut buf = PBuf::new(pw as usize * ph as usize * ps, mem, 0);
        {
            let b = buf.as_mut();
            for y in 0..ph {
                for x in 0..pw {
                    let o = (y as usize * pw as usize + x as usize) * ps;
                    let inside = x >= place.l && x < place.l + src.w && y >= place.t && y < place.t + src.h;
                    if inside {
                        b[o..o + ps].copy_from_slice(src.pixel_bytes(x - place.l, y - place.t));
                    } else {
                        for i in 0..ps {
                            b[o + i] = filler_byte(x, y, i);
                        }
                        if src.pt.ck() == CK::F32 {
                            // keep fillers finite floats
                            for c in 0..src.pt.ncomp() {
                                set_comp(CK::F32, &mut b[o..o + ps], c, 1e6 + (x + y) as f64);
                            }
                        }
                    }
                }
            }
        }
        PhysSrc { pt: src.pt, w: src.w, h: src.h, pw, ph, place, buf }
    }
}

/// Physical destination: logical rectangle dw x dh inside a sentinel-filled buffer.
pub struct PhysDst {
    pub pt: PT,
    pub w: u32,
    pub h: u32,
    pub pw: u32,
    pub ph: u32,
    pub place: Place,
    pub spare_px: usize,
    pub sentinel: u8,
    pub buf: PBuf,
}

impl PhysDst {
    pub fn new(pt: PT, w: u32, h: u32, kind: DstK, place: Place, spare_px: usize, mem: Mem, sentinel: u8) -> PhysDst {
        let place = if kind.is_crop() { place } else { Place::NONE };
        let spare_px = if kind.has_spare() { spare_px } else { 0 };
        let (pw, ph) = (place.l + w + place.mr, place.t + h + place.mb);
        let len = (pw as usize * ph as usize + spare_px) * pt.psize();
        PhysDst { pt, w, h, pw, ph, place, spare_px, sentinel, buf: PBuf::new(len, mem, sentinel) }
    }
    /// Copy `img` (same logical size) into the logical rectangle (for in-place operations).
    pub fn load(&mut self, img: &Raw) {
        let ps = self.pt.psize();
        let (pw, l, t) = (self.pw as usize, self.place.l, self.place.t);
        let b = self.buf.as_mut();
        for y in 0..self.h {
            for x in 0..self.w {
                let o = ((y + t) as usize * pw + (x + l) as usize) * ps;
                b[o..o + ps].copy_from_slice(img.pixel_bytes(x, y));
            }
        }
    }
    /// Logical rectangle as a tight image.
    pub fn extract(&self) -> Raw {
        let ps = self.pt.psize();
        let mut out = Raw::new(self.pt, self.w, self.h);
        let b = self.buf.as_ref();
        for y in 0..self.h {
            for x in 0..self.w {
                let o = ((y + self.place.t) as usize * self.pw as usize + (x + self.place.l) as usize) * ps;
                let d = (y as usize * self.w as usize + x as usize) * ps;
                out.bytes_mut()[d..d + ps].copy_from_slice(&b[o..o + ps]);
            }
        }
        out
    }
    /// Number of bytes outside the logical rectangle that no longer hold the sentinel, and the
    /// offset of the first one.
    pub fn dirty_outside(&self) -> (usize, Option<usize>) {
        let ps = self.pt.psize();
        let b = self.buf.as_ref();
        let mut n = 0;
        let mut first = None;
        let total_px = self.pw as usize * self.ph as usize;
        for p in 0..total_px + self.spare_px {
            let inside = if p < total_px {
                let (x, y) = ((p % self.pw as usize) as u32, (p / self.pw as usize) as u32);
                x >= self.place.l && x < self.place.l + self.w && y >= self.place.t && y < self.place.t + self.h
            } else {
                false
            };
            if !inside {
                for i in 0..ps {
                    if b[p * ps + i] != self.sentinel {
                        n += 1;
                        if first.is_none() {
                            first = Some(p * ps + i);
                        }
                    }
                }
            }
        }
        (n, first)
    }
    pub fn whole_untouched(&self) -> bool {
        self.buf.as_ref().iter().all(|b| *b == self.sentinel)
    }
}

// ---------------------------------------------------------------------------------------------
// Operations
// ---------------------------------------------------------------------------------------------

pub enum OpSpec<'a> {
    Resize(&'a mut Resizer, ResizeOptions),
    MulAlpha(&'a MulDiv),
    DivAlpha(&'a MulDiv),
    MulAlphaInplace(&'a MulDiv),
    DivAlphaInplace(&'a MulDiv),
    MapFwd(&'a PixelComponentMapper),
    MapBwd(&'a PixelComponentMapper),
    MapFwdInplace(&'a PixelComponentMapper),
    MapBwdInplace(&'a PixelComponentMapper),
    ChangeType,
}

impl<'a> OpSpec<'a> {
    pub fn is_inplace(&self) -> bool {
        matches!(self, OpSpec::MulAlphaInplace(_) | OpSpec::DivAlphaInplace(_) | OpSpec::MapFwdInplace(_) | OpSpec::MapBwdInplace(_))
    }
    pub fn has_typed_entry(&self) -> bool {
        matches!(self, OpSpec::Resize(..) | OpSpec::MulAlpha(_) | OpSpec::DivAlpha(_) | OpSpec::MulAlphaInplace(_) | OpSpec::DivAlphaInplace(_))
    }
    fn dyn_two<S: IntoImageView, D: IntoImageViewMut>(&mut self, s: &S, d: &mut D) -> Result<(), String> {
        match self {
            OpSpec::Resize(rz, o) => rz.resize(s, d, &*o).map_err(|e| format!("{:?}", e)),
            OpSpec::MulAlpha(m) => m.multiply_alpha(s, d).map_err(|e| format!("{:?}", e)),
            OpSpec::DivAlpha(m) => m.divide_alpha(s, d).map_err(|e| format!("{:?}", e)),
            OpSpec::MapFwd(m) => m.forward_map(s, d).map_err(|e| format!("{:?}", e)),
            OpSpec::MapBwd(m) => m.backward_map(s, d).map_err(|e| format!("{:?}", e)),
            OpSpec::ChangeType => fir::change_type_of_pixel_components(s, d).map_err(|e| format!("{:?}", e)),
            _ => unreachable!("in-place op on two images"),
        }
    }
    fn dyn_one<D: IntoImageViewMut>(&mut self, d: &mut D) -> Result<(), String> {
        match self {
            OpSpec::MulAlphaInplace(m) => m.multiply_alpha_inplace(d).map_err(|e| format!("{:?}", e)),
            OpSpec::DivAlphaInplace(m) => m.divide_alpha_inplace(d).map_err(|e| format!("{:?}", e)),
            OpSpec::MapFwdInplace(m) => m.forward_map_inplace(d).map_err(|e| format!("{:?}", e)),
            OpSpec::MapBwdInplace(m) => m.backward_map_inplace(d).map_err(|e| format!("{:?}", e)),
            _ => unreachable!("two-image op in place"),
        }
    }
    fn typed_two<P: PixelTrait, S: ImageView<Pixel = P>, D: ImageViewMut<Pixel = P>>(&mut self, s: &S, d: &mut D) -> Result<(), String> {
        match self {
            OpSpec::Resize(rz, o) => rz.resize_typed(s, d, &*o).map_err(|e| format!("{:?}", e)),
            OpSpec::MulAlpha(m) => m.multiply_alpha_typed(s, d).map_err(|e| format!("{:?}", e)),
            OpSpec::DivAlpha(m) => m.divide_alpha_typed(s, d).map_err(|e| format!("{:?}", e)),
            _ => unreachable!("no typed entry"),
        }
    }
    fn typed_one<P: PixelTrait, D: ImageViewMut<Pixel = P>>(&mut self, d: &mut D) -> Result<(), String> {
        match self {
            OpSpec::MulAlphaInplace(m) => m.multiply_alpha_inplace_typed(d).map_err(|e| format!("{:?}", e)),
            OpSpec::DivAlphaInplace(m) => m.divide_alpha_inplace_typed(d).map_err(|e| format!("{:?}", e)),
            _ => unreachable!("no typed in-place entry"),
        }
    }
}

// ---- dynamic entry -----------------------------------------------------------------------------

fn dyn_with_dst<S: IntoImageView>(op: &mut OpSpec, s: Option<&S>, dk: DstK, d: &mut PhysDst) -> Result<(), String> {
    let (pt, pw, ph, w, h, pl) = (d.pt.fir(), d.pw, d.ph, d.w, d.h, d.place);
    macro_rules! go {
        ($dst:expr) => {{
            let mut dd = $dst;
            match s {
                Some(s) => op.dyn_two(s, &mut dd),
                None => op.dyn_one(&mut dd),
            }
        }};
    }
    match dk {
        DstK::ImgOwned => {
            // an owned image owns its Vec: run on an owned image pre-filled like our buffer, copy back
            let n = (w * h) as usize * d.pt.psize();
            let mut img = Image::from_vec_u8(w, h, d.buf.as_ref()[..n].to_vec(), pt).unwrap();
            let r = match s {
                Some(s) => op.dyn_two(s, &mut img),
                None => op.dyn_one(&mut img),
            };
            d.buf.as_mut()[..n].copy_from_slice(&img.buffer()[..n]);
            r
        }
        DstK::ImgVecSpare => {
            let mut img = Image::from_vec_u8(w, h, d.buf.as_ref().to_vec(), pt).unwrap();
            let r = match s {
                Some(s) => op.dyn_two(s, &mut img),
                None => op.dyn_one(&mut img),
            };
            let v = img.into_vec();
            d.buf.as_mut().copy_from_slice(&v);
            r
        }
        DstK::ImgSlice | DstK::ImgSliceSpare => go!(Image::from_slice_u8(w, h, d.buf.as_mut(), pt).unwrap()),
        DstK::CropMutOfImg => {
            let mut parent = Image::from_slice_u8(pw, ph, d.buf.as_mut(), pt).unwrap();
            go!(CroppedImageMut::new(&mut parent, pl.l, pl.t, w, h).unwrap())
        }
        _ => unreachable!("typed destination in dynamic call"),
    }
}

/// Run `op` through the dynamic entry points. `src` is None for in-place operations.
pub fn dyn_call(op: &mut OpSpec, sk: SrcK, src: Option<&PhysSrc>, dk: DstK, dst: &mut PhysDst) -> Result<(), String> {
    let Some(s) = src else {
        return dyn_with_dst::<ImageRef>(op, None, dk, dst);
    };
    let (pt, pw, ph, w, h, pl) = (s.pt.fir(), s.pw, s.ph, s.w, s.h, s.place);
    match sk {
        SrcK::ImgOwned => {
            let img = Image::from_vec_u8(w, h, s.buf.as_ref().to_vec(), pt).unwrap();
            dyn_with_dst(op, Some(&img), dk, dst)
        }
        SrcK::ImgSlice => {
            // Image::from_slice_u8 wants &mut: use a private aligned copy
            let mut ab = ABuf::new(s.buf.as_ref().len());
            ab.as_mut().copy_from_slice(s.buf.as_ref());
            let img = Image::from_slice_u8(w, h, ab.as_mut(), pt).unwrap();
            dyn_with_dst(op, Some(&img), dk, dst)
        }
        SrcK::RefNew => {
            let img = ImageRef::new(w, h, s.buf.as_ref(), pt).unwrap();
            dyn_with_dst(op, Some(&img), dk, dst)
        }
        SrcK::RefFromPixels => with_pt!(s.pt, P => {
            let img = ImageRef::from_pixels::<P>(w, h, as_pixels::<P>(s.buf.as_ref())).unwrap();
            dyn_with_dst(op, Some(&img), dk, dst)
        }),
        SrcK::CropOfRef => {
            let parent = ImageRef::new(pw, ph, s.buf.as_ref(), pt).unwrap();
            let img = CroppedImage::new(&parent, pl.l, pl.t, w, h).unwrap();
            dyn_with_dst(op, Some(&img), dk, dst)
        }
        SrcK::CropOfImg => {
            let parent = Image::from_vec_u8(pw, ph, s.buf.as_ref().to_vec(), pt).unwrap();
            let img = CroppedImage::new(&parent, pl.l, pl.t, w, h).unwrap();
            dyn_with_dst(op, Some(&img), dk, dst)
        }
        SrcK::CropMutAsSrc => {
            let mut parent = Image::from_vec_u8(pw, ph, s.buf.as_ref().to_vec(), pt).unwrap();
            let img = CroppedImageMut::new(&mut parent, pl.l, pl.t, w, h).unwrap();
            dyn_with_dst(op, Some(&img), dk, dst)
        }
        _ => unreachable!("typed source in dynamic call"),
    }
}

// ---- typed entry -------------------------------------------------------------------------------

fn typed_with_dst<P: PixelTrait, S: ImageView<Pixel = P>>(op: &mut OpSpec, s: Option<&S>, dk: DstK, d: &mut PhysDst) -> Result<(), String> {
    let (pw, ph, w, h, pl) = (d.pw, d.ph, d.w, d.h, d.place);
    macro_rules! go {
        ($dst:expr) => {{
            let mut dd = $dst;
            match s {
                Some(s) => op.typed_two::<P, S, _>(s, &mut dd),
                None => op.typed_one::<P, _>(&mut dd),
            }
        }};
    }
    match dk {
        DstK::TSlice | DstK::TSliceSpare => go!(TypedImage::<P>::from_pixels_slice(w, h, as_pixels_mut::<P>(d.buf.as_mut())).unwrap()),
        DstK::TBufferSpare => go!(TypedImage::<P>::from_buffer(w, h, d.buf.as_mut()).unwrap()),
        DstK::TCropMutNew => {
            let parent = TypedImage::<P>::from_pixels_slice(pw, ph, as_pixels_mut::<P>(d.buf.as_mut())).unwrap();
            go!(TypedCroppedImageMut::new(parent, pl.l, pl.t, w, h).unwrap())
        }
        DstK::TCropMutFromRef => {
            let mut parent = TypedImage::<P>::from_pixels_slice(pw, ph, as_pixels_mut::<P>(d.buf.as_mut())).unwrap();
            go!(TypedCroppedImageMut::from_ref(&mut parent, pl.l, pl.t, w, h).unwrap())
        }
        DstK::TCropMutNested => {
            let (ox, oy) = (pl.l.min(2), pl.t.min(1));
            let parent = TypedImage::<P>::from_pixels_slice(pw, ph, as_pixels_mut::<P>(d.buf.as_mut())).unwrap();
            let outer = TypedCroppedImageMut::new(parent, pl.l - ox, pl.t - oy, pw - (pl.l - ox), ph - (pl.t - oy)).unwrap();
            go!(TypedCroppedImageMut::new(outer, ox, oy, w, h).unwrap())
        }
        _ => unreachable!("dynamic destination in typed call"),
    }
}

/// Allowed typed (source, destination) pairs — pairwise-independent axes, to bound the number of
/// monomorphised copies of the resize pipeline: every source kind against the plain slice
/// destination, and every destination kind against the plain reference source.
pub fn typed_pair_allowed(sk: SrcK, dk: DstK) -> bool {
    (TYPED_SRC.contains(&sk) && matches!(dk, DstK::TSlice | DstK::TSliceSpare)) || (sk == SrcK::TRef && TYPED_DST.contains(&dk)) || (sk == SrcK::TCropNested && dk == DstK::TCropMutNested)
}

pub fn typed_call<P: PixelTrait>(op: &mut OpSpec, sk: SrcK, src: Option<&PhysSrc>, dk: DstK, dst: &mut PhysDst) -> Result<(), String> {
    let Some(s) = src else {
        return typed_with_dst::<P, TypedImageRef<P>>(op, None, dk, dst);
    };
    assert!(typed_pair_allowed(sk, dk), "typed pair {:?}/{:?} not in the matrix", sk, dk);
    let (pw, ph, w, h, pl) = (s.pw, s.ph, s.w, s.h, s.place);
    // destination kinds other than the slice ones are only instantiated for the TRef source
    macro_rules! slice_only {
        ($view:expr) => {{
            let v = $view;
            match dk {
                DstK::TSlice | DstK::TSliceSpare => typed_with_dst::<P, _>(op, Some(&v), dk, dst),
                _ => unreachable!(),
            }
        }};
    }
    match sk {
        SrcK::TRef => {
            let v = TypedImageRef::<P>::new(w, h, as_pixels::<P>(s.buf.as_ref())).unwrap();
            typed_with_dst::<P, _>(op, Some(&v), dk, dst)
        }
        SrcK::TImgOwned => slice_only!(TypedImage::<P>::from_pixels(w, h, as_pixels::<P>(s.buf.as_ref()).to_vec()).unwrap()),
        SrcK::TCropFromRef => {
            let parent = TypedImageRef::<P>::new(pw, ph, as_pixels::<P>(s.buf.as_ref())).unwrap();
            slice_only!(TypedCroppedImage::from_ref(&parent, pl.l, pl.t, w, h).unwrap())
        }
        SrcK::TCropNew => {
            let parent = TypedImageRef::<P>::new(pw, ph, as_pixels::<P>(s.buf.as_ref())).unwrap();
            slice_only!(TypedCroppedImage::new(parent, pl.l, pl.t, w, h).unwrap())
        }
        SrcK::TCropNested => {
            let (ox, oy) = (pl.l.min(2), pl.t.min(1));
            let parent = TypedImageRef::<P>::new(pw, ph, as_pixels::<P>(s.buf.as_ref())).unwrap();
            let outer = TypedCroppedImage::new(parent, pl.l - ox, pl.t - oy, pw - (pl.l - ox), ph - (pl.t - oy)).unwrap();
            let v = TypedCroppedImage::new(outer, ox, oy, w, h).unwrap();
            match dk {
                DstK::TSlice | DstK::TSliceSpare => typed_with_dst::<P, _>(op, Some(&v), dk, dst),
                DstK::TCropMutNested => {
                    // nested -> nested: instantiated once
                    let (dpw, dph, dw, dh, dpl) = (dst.pw, dst.ph, dst.w, dst.h, dst.place);
                    let (dx, dy) = (dpl.l.min(2), dpl.t.min(1));
                    let dparent = TypedImage::<P>::from_pixels_slice(dpw, dph, as_pixels_mut::<P>(dst.buf.as_mut())).unwrap();
                    let douter = TypedCroppedImageMut::new(dparent, dpl.l - dx, dpl.t - dy, dpw - (dpl.l - dx), dph - (dpl.t - dy)).unwrap();
                    let mut dd = TypedCroppedImageMut::new(douter, dx, dy, dw, dh).unwrap();
                    op.typed_two::<P, _, _>(&v, &mut dd)
                }
                _ => unreachable!(),
            }
        }
        _ => unreachable!("dynamic source in typed call"),
    }
}

/// Pixel types for which the typed container matrix is instantiated.
pub const TYPED_PTS: [PT; 6] = [PT::U8, PT::U8x3, PT::U8x4, PT::U16x2, PT::I32, PT::F32x3];

/// Dispatch a typed call on the pixel type (must be one of TYPED_PTS).
pub fn typed_call_pt(pt: PT, op: &mut OpSpec, sk: SrcK, src: Option<&PhysSrc>, dk: DstK, dst: &mut PhysDst) -> Result<(), String> {
    use fir::pixels as fp;
    match pt {
        PT::U8 => typed_call::<fp::U8>(op, sk, src, dk, dst),
        PT::U8x3 => typed_call::<fp::U8x3>(op, sk, src, dk, dst),
        PT::U8x4 => typed_call::<fp::U8x4>(op, sk, src, dk, dst),
        PT::U16x2 => typed_call::<fp::U16x2>(op, sk, src, dk, dst),
        PT::I32 => typed_call::<fp::I32>(op, sk, src, dk, dst),
        PT::F32x3 => typed_call::<fp::F32x3>(op, sk, src, dk, dst),
        _ => panic!("harness: typed container matrix not instantiated for {:?}", pt),
    }
}

/// Convenience: to_fir options.
pub fn fir_opts(o: &Opts, sw: u32, sh: u32) -> ResizeOptions {
    o.to_fir(sw, sh)
}
