//! Shared machinery for the convolution properties (C01, C02, C10, C18): content generators,
//! 1-D single-pass drivers in both orientations, and the interval oracle wiring.
use crate::alg::*;
use crate::coef::{self, Geo};
use crate::ideal::*;
use crate::px::*;
use fast_image_resize::verif::CoefficientsDump;
use fast_image_resize::Resizer;

/// Representative component values per kind: (min, low, mid, high, max) used by constant rows.
pub fn const_values(ck: CK) -> Vec<f64> {
    match ck {
        CK::U8 => vec![0.0, 1.0, 127.0, 254.0, 255.0],
        CK::U16 => vec![0.0, 1.0, 32767.0, 65534.0, 65535.0],
        CK::I32 => vec![i32::MIN as f64, -1.0, 0.0, 1.0, i32::MAX as f64],
        CK::F32 => vec![0.0, 1e-30, 0.5, 255.0, -1.0],
    }
}

/// "max" and "min" used for impulses / adversarial rows.
pub fn hi_lo(ck: CK) -> (f64, f64) {
    match ck {
        CK::U8 => (255.0, 0.0),
        CK::U16 => (65535.0, 0.0),
        CK::I32 => (i32::MAX as f64, i32::MIN as f64),
        CK::F32 => (1.0, -1.0),
    }
}

/// Content rows (each of length n_in) for one geometry: identity (impulse at every position),
/// constants, sign-adversarial rows per output sample (from the oracle's own weights), LCG rows.
pub fn content_rows(ck: CK, n_in: usize, wins: Option<&Wins>, lcg_rows: usize, seed: u64) -> Vec<Vec<f64>> {
    let (hi, lo) = hi_lo(ck);
    let zero = if ck == CK::I32 { 0.0 } else { lo.max(0.0) };
    let mut rows: Vec<Vec<f64>> = vec![];
    for r in 0..n_in {
        let mut v = vec![zero; n_in];
        v[r] = hi;
        rows.push(v);
    }
    for c in const_values(ck) {
        rows.push(vec![c; n_in]);
    }
    if let Some(w) = wins {
        for alts in w.iter() {
            let a = &alts[0];
            if a.w.is_empty() {
                continue;
            }
            let mut plus = vec![lo; n_in];
            let mut minus = vec![lo; n_in];
            for (i, &wt) in a.w.iter().enumerate() {
                if wt > 0.0 {
                    plus[a.start + i] = hi;
                } else if wt < 0.0 {
                    minus[a.start + i] = hi;
                }
            }
            rows.push(plus);
            rows.push(minus);
        }
    }
    // extremes alternation
    rows.push((0..n_in).map(|i| if i % 2 == 0 { hi } else { lo }).collect());
    rows.push((0..n_in).map(|i| if i % 2 == 1 { hi } else { lo }).collect());
    for k in 0..lcg_rows {
        let mut l = Lcg::new(seed ^ (k as u64 + 1).wrapping_mul(0x9E37) ^ ((n_in as u64) << 32));
        rows.push((0..n_in).map(|_| l.comp(ck)).collect());
    }
    if ck == CK::F32 {
        // the oracle must see exactly the values the image holds
        for r in rows.iter_mut() {
            for v in r.iter_mut() {
                *v = *v as f32 as f64;
            }
        }
    }
    rows
}

#[derive(Clone, Copy, Debug, PartialEq, Eq)]
pub enum Orient {
    /// rows are the test vectors; only a horizontal pass runs
    Horiz,
    /// columns are the test vectors; only a vertical pass runs
    Vert,
}

/// Build the source image for a 1-D single-pass run: channel c of line r carries content row
/// (r + 7c) mod H, so every channel sees every content row.
pub fn build_1d(pt: PT, rows: &[Vec<f64>], orient: Orient) -> Raw {
    let h = rows.len();
    let n = rows[0].len();
    match orient {
        Orient::Horiz => Raw::from_fn(pt, n as u32, h as u32, |x, y, c| rows[(y as usize + 7 * c) % h][x as usize]),
        Orient::Vert => Raw::from_fn(pt, h as u32, n as u32, |x, y, c| rows[(x as usize + 7 * c) % h][y as usize]),
    }
}

/// Run the single pass through the public API. Returns the destination (lines x n_out).
pub fn run_1d(rz: &mut Resizer, src: &Raw, orient: Orient, crop: Crop1, n_out: u32, alg: Alg, alpha: bool) -> Raw {
    let mut o = Opts::new(alg);
    o.alpha = alpha;
    let (dw, dh) = match orient {
        Orient::Horiz => {
            o.cx = Some(crop);
            (n_out, src.h)
        }
        Orient::Vert => {
            o.cy = Some(crop);
            (src.w, n_out)
        }
    };
    resize_raw(rz, src, dw, dh, &o).expect("1-D resize with a valid crop must not fail")
}

/// Read sample j of line r, channel c from a 1-D result.
#[inline]
pub fn get_1d(dst: &Raw, orient: Orient, line: usize, j: usize, c: usize) -> f64 {
    match orient {
        Orient::Horiz => dst.get(j as u32, line as u32, c),
        Orient::Vert => dst.get(line as u32, j as u32, c),
    }
}

/// Does the crate resample along an axis with this geometry? (C12: an integer-aligned crop whose
/// length equals the destination is copied, not filtered.)
pub fn axis_is_identity(crop: Crop1, n_out: u32) -> bool {
    crop.len == n_out as f64 && crop.start == crop.start.round()
}

/// Ideal windows with the C12 rule applied.
pub fn windows_for(n_in: u32, crop: Crop1, n_out: u32, f: F, adaptive: bool) -> Option<Wins> {
    if axis_is_identity(crop, n_out) {
        let s = crop.start as usize;
        return Some((0..n_out as usize).map(|j| vec![Alt { start: s + j, w: vec![1.0] }]).collect());
    }
    ideal_windows(n_in, crop, n_out, f, adaptive)
}

/// Precision the implementation uses for this axis and component kind (0 when not fixed-point).
pub fn precision_for(ck: CK, d: &CoefficientsDump) -> u32 {
    match ck {
        CK::U8 => d.precision16 as u32,
        CK::U16 => d.precision32 as u32,
        _ => 0,
    }
}

pub fn dump_for(n_in: u32, crop: Crop1, n_out: u32, f: F, adaptive: bool) -> CoefficientsDump {
    coef::dump(&Geo { n_in, crop, n_out, f, adaptive }, true, true)
}

pub fn adaptive_of(alg: Alg) -> bool {
    !matches!(alg, Alg::Interp(_))
}

/// Distance of `v` from interval (0 when inside).
#[inline]
pub fn outside(iv: Iv, v: f64) -> f64 {
    if v < iv.lo {
        iv.lo - v
    } else if v > iv.hi {
        v - iv.hi
    } else if v.is_nan() && !(iv.lo.is_nan() || iv.hi.is_nan()) {
        f64::INFINITY
    } else {
        0.0
    }
}
