//! E1 — bounded-exhaustive explorer.
//!
//! A *space* is a finite index range 0..n with a deterministic function from
//! index to case, executed completely (or until the wall cap, which is then
//! reported). Workers pull chunks of indices from an atomic counter; every
//! case runs inside `catch_unwind`. With `isolate` the workers are child
//! processes of this binary, so that a SIGSEGV/abort kills only the child and
//! is attributed to the case index the child last published in shared memory.
use serde_json::{json, Value};
use std::cell::RefCell;
use std::collections::{BTreeMap, HashSet};
use std::panic::{catch_unwind, AssertUnwindSafe};
use std::sync::atomic::{AtomicBool, AtomicU64, Ordering};
use std::time::{Duration, Instant};

pub const MAX_DETAILS_PER_SIG: usize = 4;

#[derive(Clone, Debug)]
pub struct Viol {
    pub space: String,
    pub idx: u64,
    pub sig: String,
    pub detail: Value,
}

/// Per-worker accumulation context handed to the case function.
pub struct Ctx {
    pub idx: u64,
    pub ops: u64,
    pub traces: u64,
    pub nontrivial: u64,
    pub classes: HashSet<u64>,
    pub outcomes: HashSet<u64>,
    pub viols: Vec<Viol>,
    pub sig_counts: BTreeMap<String, u64>,
    pub samples: Vec<Value>,
    pub want_sample: bool,
    /// when set, the case function returns right after describing the case (used to describe
    /// cases that crashed their child process)
    pub describe_only: bool,
    pub space: String,
    pub notes: BTreeMap<String, u64>,
}

impl Ctx {
    pub fn new(space: &str) -> Self {
        Ctx {
            idx: 0,
            ops: 0,
            traces: 0,
            nontrivial: 0,
            classes: HashSet::new(),
            outcomes: HashSet::new(),
            viols: Vec::new(),
            sig_counts: BTreeMap::new(),
            samples: Vec::new(),
            want_sample: false,
            describe_only: false,
            space: space.to_string(),
            notes: BTreeMap::new(),
        }
    }
    /// Record a violation. `detail` is only evaluated for the first few per signature.
    pub fn violation(&mut self, sig: impl Into<String>, detail: impl FnOnce() -> Value) {
        let sig = sig.into();
        let c = self.sig_counts.entry(sig.clone()).or_insert(0);
        *c += 1;
        if *c as usize <= MAX_DETAILS_PER_SIG {
            self.viols.push(Viol { space: self.space.clone(), idx: self.idx, sig, detail: detail() });
        }
    }
    #[inline]
    pub fn class(&mut self, h: u64) {
        self.classes.insert(h);
    }
    #[inline]
    pub fn outcome(&mut self, h: u64) {
        // bounded: we only need to know that there are many distinct outcomes
        if self.outcomes.len() < 1 << 16 {
            self.outcomes.insert(h);
        }
    }
    pub fn sample(&mut self, f: impl FnOnce() -> Value) {
        if self.want_sample {
            self.samples.push(f());
        }
        if self.describe_only {
            // describe-only runs happen inside the driver (for cases that crashed or corrupted
            // their child): leave the case function here, before it touches the library, also in
            // case functions that do not test the flag themselves. Callers wrap the call in
            // `guarded` and ignore its result.
            std::panic::resume_unwind(Box::new("describe-only"));
        }
    }
    pub fn note(&mut self, key: &str, n: u64) {
        *self.notes.entry(key.to_string()).or_insert(0) += n;
    }
    pub fn note_max(&mut self, key: &str, n: u64) {
        let e = self.notes.entry(key.to_string()).or_insert(0);
        if n > *e {
            *e = n;
        }
    }
}

pub type CaseFn = Box<dyn Fn(u64, &mut Ctx) + Sync + Send>;

pub struct Space {
    pub name: String,
    pub n: u64,
    pub isolate: bool,
    pub f: CaseFn,
}

impl Space {
    pub fn new(name: &str, n: u64, f: impl Fn(u64, &mut Ctx) + Sync + Send + 'static) -> Self {
        Space { name: name.to_string(), n, isolate: false, f: Box::new(f) }
    }
    pub fn isolated(mut self) -> Self {
        self.isolate = true;
        self
    }
}

#[derive(Default, Clone)]
pub struct Report {
    pub cases: u64,
    pub planned: u64,
    pub ops: u64,
    pub traces: u64,
    pub nontrivial: u64,
    pub classes: HashSet<u64>,
    pub outcomes: HashSet<u64>,
    pub viols: Vec<Viol>,
    pub sig_counts: BTreeMap<String, u64>,
    pub samples: Vec<Value>,
    pub cap_hit: bool,
    pub spaces: Vec<Value>,
    pub notes: BTreeMap<String, u64>,
    pub crashes: u64,
}

impl Report {
    pub fn absorb_ctx(&mut self, c: Ctx) {
        self.ops += c.ops;
        self.traces += c.traces;
        self.nontrivial += c.nontrivial;
        self.classes.extend(c.classes);
        self.outcomes.extend(c.outcomes);
        self.viols.extend(c.viols);
        for (k, v) in c.sig_counts {
            *self.sig_counts.entry(k).or_insert(0) += v;
        }
        self.samples.extend(c.samples);
        for (k, v) in c.notes {
            if k.starts_with("max:") {
                let e = self.notes.entry(k).or_insert(0);
                if v > *e {
                    *e = v;
                }
            } else {
                *self.notes.entry(k).or_insert(0) += v;
            }
        }
    }
    pub fn merge(&mut self, o: Report) {
        self.cases += o.cases;
        self.planned += o.planned;
        self.ops += o.ops;
        self.traces += o.traces;
        self.nontrivial += o.nontrivial;
        self.classes.extend(o.classes);
        self.outcomes.extend(o.outcomes);
        self.viols.extend(o.viols);
        for (k, v) in o.sig_counts {
            *self.sig_counts.entry(k).or_insert(0) += v;
        }
        self.samples.extend(o.samples);
        self.cap_hit |= o.cap_hit;
        self.spaces.extend(o.spaces);
        self.crashes += o.crashes;
        for (k, v) in o.notes {
            if k.starts_with("max:") {
                let e = self.notes.entry(k).or_insert(0);
                if v > *e {
                    *e = v;
                }
            } else {
                *self.notes.entry(k).or_insert(0) += v;
            }
        }
    }
    /// Keep the first few violations per signature, smallest case index first.
    pub fn normalise(&mut self) {
        self.viols.sort_by(|a, b| (a.space.as_str(), a.idx).cmp(&(b.space.as_str(), b.idx)));
        let mut seen: BTreeMap<String, usize> = BTreeMap::new();
        self.viols.retain(|v| {
            let c = seen.entry(v.sig.clone()).or_insert(0);
            *c += 1;
            *c <= MAX_DETAILS_PER_SIG
        });
    }
}

thread_local! {
    static LAST_PANIC: RefCell<Option<(String, String)>> = const { RefCell::new(None) };
}

/// Install a panic hook that records (location, message) instead of printing.
pub fn install_quiet_panic_hook() {
    std::panic::set_hook(Box::new(|info| {
        let loc = info
            .location()
            .map(|l| {
                let f = l.file();
                // keep paths stable: strip everything up to the crate dir
                let f = f.rsplit("/repo/").next().unwrap_or(f);
                format!("{}:{}", f, l.line())
            })
            .unwrap_or_else(|| "?".into());
        let msg = if let Some(s) = info.payload().downcast_ref::<&str>() {
            s.to_string()
        } else if let Some(s) = info.payload().downcast_ref::<String>() {
            s.clone()
        } else {
            "<non-string panic>".into()
        };
        LAST_PANIC.with(|p| *p.borrow_mut() = Some((loc, msg)));
    }));
}

pub fn take_last_panic() -> Option<(String, String)> {
    LAST_PANIC.with(|p| p.borrow_mut().take())
}

/// Run `f` catching panics; returns Err((location, message)) on panic.
pub fn guarded<R>(f: impl FnOnce() -> R) -> Result<R, (String, String)> {
    match catch_unwind(AssertUnwindSafe(f)) {
        Ok(r) => Ok(r),
        Err(_) => Err(take_last_panic().unwrap_or(("?".into(), "?".into()))),
    }
}

/// Shorten a panic message into something usable inside a signature.
pub fn panic_class(msg: &str) -> String {
    let m: String = msg
        .chars()
        .map(|c| if c.is_ascii_digit() { '#' } else { c })
        .collect();
    let mut out = String::new();
    let mut last_hash = false;
    for c in m.chars() {
        if c == '#' {
            if !last_hash {
                out.push('#');
            }
            last_hash = true;
        } else {
            out.push(c);
            last_hash = false;
        }
    }
    out.chars().take(80).collect()
}

fn run_one(space: &Space, idx: u64, ctx: &mut Ctx, prop: &str) {
    ctx.idx = idx;
    let r = catch_unwind(AssertUnwindSafe(|| (space.f)(idx, ctx)));
    if r.is_err() {
        let (loc, msg) = take_last_panic().unwrap_or(("?".into(), "?".into()));
        let harness_bug = !loc.starts_with("src/") || loc.contains("harness");
        let sig = format!("{}|panic|{}|{}", prop, loc, panic_class(&msg));
        ctx.violation(sig, || json!({"panic_at": loc, "message": msg, "escaped_case_fn": true, "harness_side": harness_bug}));
    }
}

pub struct RunCfg {
    pub prop: String,
    pub threads: usize,
    pub deadline: Instant,
}

fn sample_points(n: u64) -> [u64; 3] {
    [0, n / 2, n.saturating_sub(1)]
}

/// In-process exploration of one space on `threads` worker threads.
pub fn explore_threads(space: &Space, cfg: &RunCfg, start: u64, end: u64, pubword: Option<&AtomicU64>) -> Report {
    let next = AtomicU64::new(start);
    let stop = AtomicBool::new(false);
    let done = AtomicU64::new(0);
    let sp = sample_points(space.n);
    let chunk: u64 = ((end - start) / (cfg.threads as u64 * 64)).clamp(1, 256);
    let mut rep = Report::default();
    let ctxs: Vec<Ctx> = std::thread::scope(|s| {
        let hs: Vec<_> = (0..cfg.threads)
            .map(|_| {
                s.spawn(|| {
                    let mut ctx = Ctx::new(&space.name);
                    loop {
                        if stop.load(Ordering::Relaxed) {
                            break;
                        }
                        let a = next.fetch_add(chunk, Ordering::Relaxed);
                        if a >= end {
                            break;
                        }
                        let b = (a + chunk).min(end);
                        for idx in a..b {
                            if let Some(w) = pubword {
                                w.store(idx + 1, Ordering::Relaxed);
                            }
                            ctx.want_sample = sp.contains(&idx);
                            run_one(space, idx, &mut ctx, &cfg.prop);
                        }
                        done.fetch_add(b - a, Ordering::Relaxed);
                        if Instant::now() > cfg.deadline {
                            stop.store(true, Ordering::Relaxed);
                        }
                    }
                    ctx
                })
            })
            .collect();
        hs.into_iter().map(|h| h.join().expect("worker thread died")).collect()
    });
    for c in ctxs {
        rep.absorb_ctx(c);
    }
    rep.cases = done.load(Ordering::Relaxed);
    rep.planned = end - start;
    rep.cap_hit = rep.cases < rep.planned;
    rep
}

// ---------------------------------------------------------------------------
// Subprocess isolation
// ---------------------------------------------------------------------------

/// Child side of an isolated exploration. All children of one space share one memory block:
/// word 0 is the next free index (chunks are claimed with fetch_add, so the load balances itself),
/// words 8+4k.. belong to child k: [running index + 1, cases done, "all done" flag, end of the
/// claimed chunk]. `resume` = the unfinished rest of a chunk whose case killed a predecessor.
pub fn child_main(space: &Space, prop: &str, k: usize, chunk: u64, resume: (u64, u64), shm_path: &str, deadline: Instant) {
    let shm = Shm::open(shm_path).expect("shm");
    // a runaway allocation must fail fast (and be attributed to the case), not eat the machine
    unsafe {
        let lim = libc::rlimit { rlim_cur: 6 << 30, rlim_max: 6 << 30 };
        libc::setrlimit(libc::RLIMIT_AS, &lim);
        let core = libc::rlimit { rlim_cur: 0, rlim_max: 0 };
        libc::setrlimit(libc::RLIMIT_CORE, &core);
        // a child must not outlive its driver (a killed driver used to leave spinning orphans)
        libc::prctl(libc::PR_SET_PDEATHSIG, libc::SIGKILL);
    }
    let base = 8 + 4 * k;
    let sp = sample_points(space.n);
    let mut ctx = Ctx::new(&space.name);
    let mut cases = 0u64;
    let mut cap = false;
    let mut run_range = |a: u64, b: u64, ctx: &mut Ctx, cases: &mut u64| {
        shm.store(base + 3, b);
        for idx in a..b {
            shm.store(base, idx + 1);
            shm.store(base + 1, *cases);
            ctx.want_sample = sp.contains(&idx);
            run_one(space, idx, ctx, prop);
            *cases += 1;
        }
        shm.store(base, 0);
    };
    if resume.1 > resume.0 {
        run_range(resume.0, resume.1.min(space.n), &mut ctx, &mut cases);
    }
    loop {
        let a = shm.fetch_add(0, chunk);
        if a >= space.n {
            break;
        }
        run_range(a, (a + chunk).min(space.n), &mut ctx, &mut cases);
        if Instant::now() > deadline {
            cap = true;
            break;
        }
    }
    shm.store(base + 1, cases);
    shm.store(base + 2, 1); // everything this child claimed has run; what follows is only reporting
    let mut rep = Report::default();
    rep.absorb_ctx(ctx);
    rep.cases = cases;
    rep.cap_hit = cap;
    println!("{}", report_to_json(&rep));
}

pub fn report_to_json(rep: &Report) -> Value {
    json!({
        "cases": rep.cases, "ops": rep.ops, "traces": rep.traces, "nontrivial": rep.nontrivial,
        "classes": rep.classes.iter().collect::<Vec<_>>(),
        "outcomes": rep.outcomes.iter().collect::<Vec<_>>(),
        "viols": rep.viols.iter().map(|v| json!({"space": v.space, "idx": v.idx, "sig": v.sig, "detail": v.detail})).collect::<Vec<_>>(),
        "sig_counts": rep.sig_counts, "samples": rep.samples, "cap_hit": rep.cap_hit, "notes": rep.notes,
    })
}

pub fn report_from_json(v: &Value) -> Report {
    let mut r = Report::default();
    r.cases = v["cases"].as_u64().unwrap_or(0);
    r.ops = v["ops"].as_u64().unwrap_or(0);
    r.traces = v["traces"].as_u64().unwrap_or(0);
    r.nontrivial = v["nontrivial"].as_u64().unwrap_or(0);
    if let Some(a) = v["classes"].as_array() {
        r.classes = a.iter().filter_map(|x| x.as_u64()).collect();
    }
    if let Some(a) = v["outcomes"].as_array() {
        r.outcomes = a.iter().filter_map(|x| x.as_u64()).collect();
    }
    if let Some(a) = v["viols"].as_array() {
        for x in a {
            r.viols.push(Viol {
                space: x["space"].as_str().unwrap_or("").to_string(),
                idx: x["idx"].as_u64().unwrap_or(0),
                sig: x["sig"].as_str().unwrap_or("").to_string(),
                detail: x["detail"].clone(),
            });
        }
    }
    if let Some(m) = v["sig_counts"].as_object() {
        for (k, c) in m {
            r.sig_counts.insert(k.clone(), c.as_u64().unwrap_or(0));
        }
    }
    if let Some(a) = v["samples"].as_array() {
        r.samples = a.clone();
    }
    r.cap_hit = v["cap_hit"].as_bool().unwrap_or(false);
    if let Some(m) = v["notes"].as_object() {
        for (k, c) in m {
            r.notes.insert(k.clone(), c.as_u64().unwrap_or(0));
        }
    }
    r
}

/// Tiny shared-memory block (a file under the target dir, MAP_SHARED) of 8 u64 words.
pub struct Shm {
    ptr: *mut u64,
}
unsafe impl Send for Shm {}
unsafe impl Sync for Shm {}

impl Shm {
    pub fn create(path: &str) -> std::io::Result<Shm> {
        std::fs::write(path, vec![0u8; 4096])?;
        Self::open(path)
    }
    pub fn open(path: &str) -> std::io::Result<Shm> {
        use std::os::unix::io::AsRawFd;
        let f = std::fs::OpenOptions::new().read(true).write(true).open(path)?;
        let p = unsafe {
            libc::mmap(std::ptr::null_mut(), 4096, libc::PROT_READ | libc::PROT_WRITE, libc::MAP_SHARED, f.as_raw_fd(), 0)
        };
        if p == libc::MAP_FAILED {
            return Err(std::io::Error::last_os_error());
        }
        Ok(Shm { ptr: p as *mut u64 })
    }
    pub fn store(&self, w: usize, v: u64) {
        unsafe { (*(self.ptr.add(w) as *const AtomicU64)).store(v, Ordering::SeqCst) }
    }
    pub fn fetch_add(&self, w: usize, v: u64) -> u64 {
        unsafe { (*(self.ptr.add(w) as *const AtomicU64)).fetch_add(v, Ordering::SeqCst) }
    }
    pub fn load(&self, w: usize) -> u64 {
        unsafe { (*(self.ptr.add(w) as *const AtomicU64)).load(Ordering::SeqCst) }
    }
}

/// Parent side of the isolated exploration: `procs` children share an index counter. A child
/// that dies on a signal yields a violation for the index it had published; it is replaced by a
/// new child that first finishes the rest of the dead child's chunk.
pub fn explore_isolated(space: &Space, cfg: &RunCfg, space_ordinal: usize, child_args: &[String]) -> Report {
    use std::os::unix::process::ExitStatusExt;
    use std::process::{Command, Stdio};
    let procs = (cfg.threads.max(1) as u64).min(space.n.max(1)).min(200);
    let exe = std::env::current_exe().expect("current_exe");
    let tmpdir = std::env::var("FIRMC_TMP").unwrap_or_else(|_| "/verif/.target/tmp".into());
    std::fs::create_dir_all(&tmpdir).ok();
    let shm_path = format!("{}/shm_{}_{}", tmpdir, std::process::id(), space_ordinal);
    let shm = Shm::create(&shm_path).expect("create shm");
    let chunk: u64 = (space.n / (procs * 64)).clamp(1, 256);
    let mut total = Report::default();
    let shm_ref = &shm;
    let shm_path_ref = &shm_path;
    let reports: Vec<Report> = std::thread::scope(|s| {
        let hs: Vec<_> = (0..procs as usize)
            .map(|k| {
                let exe = exe.clone();
                s.spawn(move || {
                    let mut rep = Report::default();
                    let base = 8 + 4 * k;
                    let mut resume = (0u64, 0u64);
                    let mut restarts = 0;
                    loop {
                        let remaining = cfg.deadline.saturating_duration_since(Instant::now());
                        if remaining.is_zero() {
                            rep.cap_hit = true;
                            break;
                        }
                        for w in 0..4 {
                            shm_ref.store(base + w, 0);
                        }
                        let mut child = Command::new(&exe)
                            .args(child_args)
                            .arg("--child")
                            .arg(format!("{}:{}:{}:{}:{}:{}:{}", space_ordinal, k, chunk, resume.0, resume.1, remaining.as_millis(), shm_path_ref))
                            .stdin(Stdio::null())
                            .stdout(Stdio::piped())
                            .stderr(Stdio::null())
                            .env("RUST_BACKTRACE", "0")
                            .spawn()
                            .expect("spawn child");
                        // watchdog: a case that does not return is a verdict (the call neither returns
                        // Ok nor an error), not something to wait for. Progress = the published case
                        // index / the done counter in the shared words.
                        let mut pipe = child.stdout.take().expect("child stdout");
                        let reader = std::thread::spawn(move || {
                            use std::io::Read;
                            let mut buf = Vec::new();
                            let _ = pipe.read_to_end(&mut buf);
                            buf
                        });
                        let hang_limit = Duration::from_secs(std::env::var("VERIF_HANG_SECS").ok().and_then(|v| v.parse().ok()).unwrap_or(300));
                        let mut last = (shm_ref.load(base), shm_ref.load(base + 1));
                        let mut last_change = Instant::now();
                        let mut hung = false;
                        let status = loop {
                            match child.try_wait() {
                                Ok(Some(st)) => break st,
                                Ok(None) => {}
                                Err(_) => {}
                            }
                            let now = (shm_ref.load(base), shm_ref.load(base + 1));
                            if now != last {
                                last = now;
                                last_change = Instant::now();
                            } else if now.0 != 0 && last_change.elapsed() > hang_limit {
                                hung = true;
                                let _ = child.kill();
                                break child.wait().expect("wait child");
                            }
                            std::thread::sleep(Duration::from_millis(20));
                        };
                        let stdout = reader.join().unwrap_or_default();
                        struct Out {
                            status: std::process::ExitStatus,
                            stdout: Vec<u8>,
                        }
                        let out = Out { status, stdout };
                        if hung {
                            let idx = shm_ref.load(base).saturating_sub(1);
                            let done_cases = shm_ref.load(base + 1);
                            rep.cases += done_cases + 1;
                            rep.crashes += 1;
                            let sig = format!("{}|hang|a case did not return within {} s (killed)", cfg.prop, hang_limit.as_secs());
                            *rep.sig_counts.entry(sig.clone()).or_insert(0) += 1;
                            rep.viols.push(Viol { space: space.name.clone(), idx, sig, detail: json!({"hung_case_index": idx, "limit_s": hang_limit.as_secs()}) });
                            resume = (idx + 1, shm_ref.load(base + 3));
                            restarts += 1;
                            if restarts > 3 {
                                rep.cap_hit = true;
                                rep.notes.insert("isolated children stopped after repeated hangs".into(), 1);
                                break;
                            }
                            continue;
                        }
                        if out.status.success() {
                            let text = String::from_utf8_lossy(&out.stdout);
                            let line = text.lines().rev().find(|l| l.starts_with('{')).unwrap_or("{}");
                            let v: Value = serde_json::from_str(line).unwrap_or(json!({}));
                            rep.merge(report_from_json(&v));
                            break;
                        }
                        let published = shm_ref.load(base);
                        let done_cases = shm_ref.load(base + 1);
                        let signal = out.status.signal();
                        let signame = match signal {
                            Some(11) => "SIGSEGV".to_string(),
                            Some(6) => "SIGABRT".to_string(),
                            Some(7) => "SIGBUS".to_string(),
                            Some(4) => "SIGILL".to_string(),
                            Some(s) => format!("signal{}", s),
                            None => format!("exit{}", out.status.code().unwrap_or(-1)),
                        };
                        if published == 0 && shm_ref.load(base + 2) == 1 {
                            // every claimed case ran, then the child died while freeing memory / printing
                            // its report: an earlier case of this child corrupted the heap
                            let sig = format!("{}|crash|{} after the last case of a child (memory corrupted by an earlier case)", cfg.prop, signame);
                            *rep.sig_counts.entry(sig.clone()).or_insert(0) += 1;
                            rep.cases += done_cases;
                            rep.crashes += 1;
                            rep.viols.push(Viol { space: space.name.clone(), idx: 0, sig, detail: json!({"child": k, "cases_run_by_the_child": done_cases, "status": format!("{:?}", out.status), "note": "the child's own verdicts were lost with it"}) });
                            break;
                        }
                        if published == 0 {
                            // died before / between cases without having finished: machinery error
                            eprintln!("MACHINERY-ERROR child {} of space {} died outside a case: status {:?}", k, space.name, out.status);
                            rep.notes.insert("machinery_errors".into(), 1);
                            break;
                        }
                        let idx = published - 1;
                        rep.cases += done_cases + 1;
                        rep.crashes += 1;
                        let sig = format!("{}|crash|{}", cfg.prop, signame);
                        *rep.sig_counts.entry(sig.clone()).or_insert(0) += 1;
                        rep.viols.push(Viol { space: space.name.clone(), idx, sig, detail: json!({"crashed_case_index": idx, "status": format!("{:?}", out.status)}) });
                        // the successor first finishes the rest of the dead child's chunk
                        resume = (idx + 1, shm_ref.load(base + 3));
                        restarts += 1;
                        if restarts > 25 {
                            // the verdict is clear; do not spend minutes re-spawning children
                            rep.cap_hit = true;
                            rep.notes.insert("isolated children stopped after 25 crashes".into(), 1);
                            break;
                        }
                    }
                    rep
                })
            })
            .collect();
        hs.into_iter().map(|h| h.join().expect("isolation thread")).collect()
    });
    for r in reports {
        total.merge(r);
    }
    std::fs::remove_file(&shm_path).ok();
    total.planned = space.n;
    if total.cases < space.n {
        total.cap_hit = true;
    }
    total
}

pub fn deadline_from_secs(s: u64) -> Instant {
    Instant::now() + Duration::from_secs(s)
}

/// Mixed-radix decoder: `dims` are the axis sizes, least-significant *last*
/// (so the first axis varies slowest and "simplest-first" ordering is kept).
pub fn decode(mut idx: u64, dims: &[u64], out: &mut [usize]) {
    for i in (0..dims.len()).rev() {
        out[i] = (idx % dims[i]) as usize;
        idx /= dims[i];
    }
}

pub fn product(dims: &[u64]) -> u64 {
    dims.iter().product()
}
