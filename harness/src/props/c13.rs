//! C13 — the result does not depend on the container or memory layout of the images.
use crate::alg::*;
use crate::containers::*;
use crate::explore::*;
use crate::props::c05::{content, mapper, run_one, spare_for, PLACES};
use crate::props::c06::mul_div;
use crate::px::*;
use crate::{Prop, Tier};
use serde_json::json;

#[derive(Clone, Copy, Debug)]
enum OpK {
    Resize(Alg, bool, bool), // alg, alpha, fractional crop
    Mul,
    Div,
    MulInplace,
    DivInplace,
    MapFwd,
    MapBwdInplace,
    ChangeType,
}

fn ops() -> Vec<OpK> {
    vec![
        OpK::Resize(Alg::Nearest, false, false),
        OpK::Resize(Alg::Nearest, false, true),
        OpK::Resize(Alg::Conv(F::Lanczos3), true, false),
        OpK::Resize(Alg::Conv(F::Lanczos3), false, true),
        OpK::Resize(Alg::Conv(F::Box), true, true),
        OpK::Resize(Alg::SS(F::Bilinear, 2), true, false),
        OpK::Resize(Alg::Interp(F::CatmullRom), false, true),
        OpK::Mul,
        OpK::Div,
        OpK::MulInplace,
        OpK::DivInplace,
        OpK::MapFwd,
        OpK::MapBwdInplace,
        OpK::ChangeType,
    ]
}

pub fn prop(tier: Tier, seed: u64) -> Prop {
    let mut p = Prop::new("C13");
    let bes = backends();
    let sizes: Vec<((u32, u32), (u32, u32))> = tier.pick(
        vec![((7, 5), (5, 7)), ((13, 9), (4, 3))],
        vec![((7, 5), (5, 7)), ((13, 9), (4, 3)), ((33, 4), (17, 6)), ((4, 33), (9, 40)), ((1, 1), (3, 2))],
    );
    let opl = ops();
    let dims = vec![opl.len() as u64, sizes.len() as u64, PLACES.len() as u64];
    let (d1, o1, s1, b1) = (dims.clone(), opl.clone(), sizes.clone(), bes.clone());
    p.spaces.push(
        Space::new("operation x size pair x placement (x pixel types x back-ends x source kinds x destination kinds x entry points inside; fenced buffers)", product(&dims), move |idx, ctx| {
            let mut d = [0usize; 3];
            decode(idx, &d1, &mut d);
            let opk = o1[d[0]];
            let ((sw, sh), (dw0, dh0)) = s1[d[1]];
            let place = PLACES[d[2]];
            let splace = PLACES[(d[2] + 3) % PLACES.len()];
            ctx.sample(|| json!({"operation": format!("{:?}", opk), "src": [sw, sh], "dst": [dw0, dh0], "dst_placement": format!("{:?}", place), "src_placement": format!("{:?}", splace),
                "inside": "13 pixel types x back-ends x 12 source kinds x 11 destination kinds (pairwise) x {dynamic, typed} entry"}));
            if ctx.describe_only {
                return;
            }
            let same_size = !matches!(opk, OpK::Resize(..));
            let (dw, dh) = if same_size { (sw, sh) } else { (dw0, dh0) };
            for (pi, pt) in ALL_PT.iter().copied().enumerate() {
                let (supported, dpt) = match opk {
                    OpK::Resize(..) => (true, pt),
                    OpK::Mul | OpK::Div | OpK::MulInplace | OpK::DivInplace => (pt.has_alpha(), pt),
                    OpK::MapFwd => (matches!(pt.ck(), CK::U8 | CK::U16), PT::of(if pt.ck() == CK::U8 { CK::U16 } else { CK::U8 }, pt.ncomp()).unwrap_or(pt)),
                    OpK::MapBwdInplace => (matches!(pt.ck(), CK::U8 | CK::U16), pt),
                    OpK::ChangeType => (pt.ck() != CK::I32 || pt.ncomp() == 1, PT::of(if pt.ck() == CK::F32 { CK::U16 } else { CK::F32 }, pt.ncomp()).unwrap()),
                };
                if !supported {
                    continue;
                }
                let src = content(pt, sw, sh, seed ^ (idx << 8) ^ pi as u64);
                let typed_entry_exists = matches!(opk, OpK::Resize(..) | OpK::Mul | OpK::Div | OpK::MulInplace | OpK::DivInplace);
                let inplace = matches!(opk, OpK::MulInplace | OpK::DivInplace | OpK::MapBwdInplace);
                for &be in b1.iter() {
                    if pt.ck() == CK::I32 && be != BE::None {
                        continue;
                    }
                    let md = mul_div(be);
                    let mp = mapper(0);
                    let mut rz = new_resizer(be);
                    let mut run = |typed: bool, sk: SrcK, dk: DstK, ctx: &mut Ctx| -> Option<Raw> {
                        let fo = match opk {
                            OpK::Resize(alg, alpha, frac) => {
                                let mut o = Opts::new(alg);
                                o.alpha = alpha;
                                if frac {
                                    o.cx = Some(Crop1 { start: 0.25, len: sw as f64 - 0.75 });
                                    o.cy = Some(Crop1 { start: 0.5, len: sh as f64 - 0.5 });
                                }
                                Some(o.to_fir(sw, sh))
                            }
                            _ => None,
                        };
                        let mut op = match opk {
                            OpK::Resize(..) => OpSpec::Resize(&mut rz, fo.unwrap()),
                            OpK::Mul => OpSpec::MulAlpha(&md),
                            OpK::Div => OpSpec::DivAlpha(&md),
                            OpK::MulInplace => OpSpec::MulAlphaInplace(&md),
                            OpK::DivInplace => OpSpec::DivAlphaInplace(&md),
                            OpK::MapFwd => OpSpec::MapFwd(mp),
                            OpK::MapBwdInplace => OpSpec::MapBwdInplace(mp),
                            OpK::ChangeType => OpSpec::ChangeType,
                        };
                        let (out, _) = run_one(&mut op, typed, sk, dk, &src, dpt, dw, dh, splace, place, spare_for(idx as usize + pi, dw), Mem::FencedEnd, 0x5A);
                        ctx.ops += 1;
                        match out.result {
                            Ok(()) => Some(out.rect),
                            Err(e) => {
                                ctx.violation(format!("C13|{:?}|{:?}->{:?}|call failed", opk_name(opk), sk, dk), || json!({"err": e, "pixel": format!("{:?}", pt)}));
                                None
                            }
                        }
                    };
                    let Some(base) = run(false, SrcK::RefNew, DstK::ImgSlice, ctx) else { continue };
                    let mut combos: Vec<(bool, SrcK, DstK)> = vec![];
                    if !inplace {
                        for sk in DYN_SRC {
                            combos.push((false, sk, DstK::ImgSlice));
                        }
                    }
                    for dk in DYN_DST {
                        combos.push((false, SrcK::RefNew, dk));
                    }
                    if !inplace {
                        combos.push((false, SrcK::CropOfImg, DstK::CropMutOfImg));
                    }
                    if typed_entry_exists && TYPED_PTS.contains(&pt) {
                        if !inplace {
                            for sk in TYPED_SRC {
                                combos.push((true, sk, DstK::TSlice));
                            }
                            combos.push((true, SrcK::TCropNested, DstK::TCropMutNested));
                        }
                        for dk in TYPED_DST {
                            combos.push((true, SrcK::TRef, dk));
                        }
                    }
                    for (typed, sk, dk) in combos {
                        let Some(out) = run(typed, sk, dk, ctx) else { continue };
                        ctx.traces += 1;
                        if out.bytes() != base.bytes() {
                            let i = out.bytes().iter().zip(base.bytes()).position(|(a, b)| a != b).unwrap();
                            ctx.violation(format!("C13|{}|{:?}->{:?}|result differs from the owned-buffer baseline", opk_name(opk), sk, dk), || {
                                json!({"operation": format!("{:?}", opk), "pixel": format!("{:?}", pt), "backend": format!("{:?}", be), "typed_entry": typed, "src": [sw, sh], "dst": [dw, dh],
                                       "src_placement": format!("{:?}", splace), "dst_placement": format!("{:?}", place), "first_differing_byte": i, "baseline": base.bytes()[i], "got": out.bytes()[i]})
                            });
                        }
                        ctx.class(mix(mix(pt.idx() as u64, be as u64), mix(typed as u64 * 64 + sk as u64, dk as u64 * 16 + d[0] as u64)));
                    }
                    ctx.outcome(fnv(base.bytes()));
                }
            }
            ctx.nontrivial += 1;
        })
        .isolated(),
    );

    // ---- Nearest / SuperSampling pre-step: every size pair (the row and column stepping is
    //      implemented several times: generic trait default, TypedImageRef specialisation, x table)
    let nmax: u32 = tier.pick(16, 24);
    let dims2 = vec![nmax as u64, nmax as u64, 2, 3];
    let (d2, b2) = (dims2.clone(), bes.clone());
    p.spaces.push(
        Space::new("Nearest and SuperSampling pre-step: every (n_in, n_out) pair per axis x every source container kind", product(&dims2), move |idx, ctx| {
            let mut d = [0usize; 4];
            decode(idx, &d2, &mut d);
            let (n_in, n_out, axis_y, variant) = (d[0] as u32 + 1, d[1] as u32 + 1, d[2] == 1, d[3]);
            let (sw, sh, dw, dh) = if axis_y { (3, n_in, 3, n_out) } else { (n_in, 2, n_out, 2) };
            let alg = match variant {
                0 | 1 => Alg::Nearest,
                _ => Alg::SS(F::Box, 1),
            };
            ctx.sample(|| json!({"src": [sw, sh], "dst": [dw, dh], "alg": format!("{:?}", alg), "fractional_crop": variant == 1, "source_kinds": "all 11"}));
            if ctx.describe_only {
                return;
            }
            let k = idx as usize;
            let pt = TYPED_PTS[k % TYPED_PTS.len()];
            let src = crate::props::c11::tag_image(pt, sw, sh);
            let be = b2[k % b2.len()];
            let mut rz = new_resizer(be);
            let mut o = Opts::new(alg);
            if variant == 1 {
                if axis_y && sh >= 2 {
                    o.cy = Some(Crop1 { start: 0.5, len: sh as f64 - 1.0 });
                } else if !axis_y && sw >= 2 {
                    o.cx = Some(Crop1 { start: 0.25, len: sw as f64 - 0.5 });
                }
            }
            let fo = o.to_fir(sw, sh);
            let place = PLACES[k % PLACES.len()];
            let mut base: Option<Raw> = None;
            let mut combos: Vec<(bool, SrcK)> = DYN_SRC.iter().map(|s| (false, *s)).collect();
            combos.extend(TYPED_SRC.iter().map(|s| (true, *s)));
            for (typed, sk) in combos {
                let mut op = OpSpec::Resize(&mut rz, fo);
                let dk = if typed { DstK::TSlice } else { DstK::ImgSlice };
                let (out, _) = run_one(&mut op, typed, sk, dk, &src, pt, dw, dh, place, Place::NONE, 0, Mem::FencedEnd, 0x5A);
                ctx.ops += 1;
                if out.result.is_err() {
                    continue;
                }
                match &base {
                    None => base = Some(out.rect),
                    Some(b) => {
                        ctx.traces += 1;
                        if b.bytes() != out.rect.bytes() {
                            ctx.violation(format!("C13|{}|{:?}|result differs from the ImageRef baseline", crate::props::c01::alg_class(alg), sk), || {
                                json!({"src": [sw, sh], "dst": [dw, dh], "alg": format!("{:?}", alg), "fractional_crop": variant == 1, "pixel": format!("{:?}", pt), "typed_entry": typed, "placement": format!("{:?}", place),
                                       "baseline": b.bytes().iter().take(40).collect::<Vec<_>>(), "got": out.rect.bytes().iter().take(40).collect::<Vec<_>>()})
                            });
                        }
                    }
                }
                ctx.class(mix(mix(pt.idx() as u64 + 5000, sk as u64), mix((n_in % 8) as u64 * 8 + (n_out % 8) as u64, d[2] as u64 * 4 + d[3] as u64)));
            }
            if let Some(b) = base {
                ctx.outcome(fnv(b.bytes()));
            }
            ctx.nontrivial += 1;
        })
        .isolated(),
    );

    p.rule = "14 operations (7 resize variants: Nearest / Lanczos3 / Box / SuperSampling / Interpolation with alpha on/off and fractional crops; alpha multiply/divide two-image and in place; forward map; backward map in place; component conversion) x size pairs x 8 placements x 13 pixel types x back-ends, each executed through every source container kind (owned Image, borrowed slice, ImageRef::new / from_pixels, CroppedImage of a reference / of an owned parent, TypedImageRef, owned TypedImage, TypedCroppedImage from_ref / new / nested) and every destination kind (owned, Vec/slice with spare capacity, exact slice, CroppedImageMut, typed slice / spare / from_buffer, TypedCroppedImageMut new / from_ref / nested) and both entry points, in buffers that end at a guard page; the destination rectangle must be byte-identical to the ImageRef -> borrowed-slice baseline".into();
    // rayon leg: with the `rayon` feature the container families split into bands through different
    // code (slice splits vs. the trait defaults vs. cropped views); it lives in the real-rayon workspace
    let t = tier.name();
    p.extra.push(Box::new(move |_| crate::props::c08::run_engine_for("C13", crate::props::c08::RAYON_REL, &["c13", t], &[], "containers under real rayon")));
    p.bounds = json!({"size_pairs": sizes.len(), "placements": PLACES.len()});
    p.assumptions = vec![
        "rayon leg: the crate built with feature `rayon` and the real rayon (pool sizes 2..7 quick, 2..32 thorough); 9 bodies x {U8, U8x4, U16x2, F32} x {portable, AVX2} x shapes x source kinds {TypedImageRef, owned TypedImage, cropped view of either} x destination kinds {TypedImage, harness view on the trait defaults, cropped views of both}: every combination must give the bytes of (borrowed source, plain destination, pool of one); the OS schedule is uncontrolled there (schedule independence itself is C08's loom exploration)".into(),
        "container kinds are varied pairwise (every source kind against the plain destination, every destination kind against the plain source, plus nested->nested and crop->crop)".into(),
        "typed kinds are instantiated for 6 of the 13 pixel types (U8, U8x3, U8x4, U16x2, I32, F32x3)".into(),
    ];
    p
}

fn opk_name(o: OpK) -> String {
    match o {
        OpK::Resize(a, alpha, frac) => format!("resize {} alpha={} frac_crop={}", crate::props::c01::alg_class(a), alpha, frac),
        o => format!("{:?}", o),
    }
}
