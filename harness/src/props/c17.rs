//! C17 — depth conversion is monotone, keeps endpoints, lossless when widening.
use crate::explore::*;
use crate::px::*;
use crate::{Prop, Tier};
use fast_image_resize as fir;
use fir::images::Image;
use fir::{change_type_of_pixel_components, MappingError};
use serde_json::json;

fn supported(s: PT, d: PT) -> bool {
    if s.ncomp() != d.ncomp() {
        return false;
    }
    if s.ncomp() == 1 {
        true
    } else {
        s.ck() != CK::I32 && d.ck() != CK::I32
    }
}

/// Sorted source domain for a component kind (NaN excluded; handled separately).
fn domain(ck: CK, tier: Tier) -> Vec<f64> {
    let mut v: Vec<f64> = vec![];
    match ck {
        CK::U8 => v.extend((0..256).map(|x| x as f64)),
        CK::U16 => v.extend((0..65536).map(|x| x as f64)),
        CK::I32 => {
            for k in 0..31 {
                let b = 1i64 << k;
                for d in [-1i64, 0, 1] {
                    for s in [-1i64, 1] {
                        let x = s * b + d;
                        if x >= i32::MIN as i64 && x <= i32::MAX as i64 {
                            v.push(x as f64);
                        }
                    }
                }
            }
            let stride = tier.pick(65521i64 * 16, 65521i64);
            let mut x = i32::MIN as i64;
            while x <= i32::MAX as i64 {
                v.push(x as f64);
                x += stride;
            }
            for x in [i32::MIN as i64, i32::MIN as i64 + 1, -1, 0, 1, i32::MAX as i64 - 1, i32::MAX as i64] {
                v.push(x as f64);
            }
            // every u8/u16 image under the widening map and its neighbours (round-trip boundaries)
            for x in 0..256i64 {
                for d in [-1i64, 0, 1] {
                    let y = (x << 23) + d * (1 << 22) + d;
                    if y >= i32::MIN as i64 && y <= i32::MAX as i64 {
                        v.push(y as f64);
                    }
                }
            }
        }
        CK::F32 => {
            let per = tier.pick(1u32 << 8, 1u32 << 12);
            for e in -30i32..=1 {
                for m in 0..per {
                    let bits = (((e + 127) as u32) << 23) | (m * ((1u32 << 23) / per));
                    let f = f32::from_bits(bits);
                    v.push(f as f64);
                    v.push(-f as f64);
                }
            }
            let eps = f32::EPSILON;
            for f in [
                0.0f32,
                -0.0,
                f32::from_bits(1),
                -f32::from_bits(1),
                f32::MIN_POSITIVE,
                -f32::MIN_POSITIVE,
                1.0,
                -1.0,
                1.0 - eps / 2.0,
                1.0 + eps,
                -1.0 + eps / 2.0,
                -1.0 - eps,
                0.5,
                -0.5,
                3.0e38,
                -3.0e38,
                f32::INFINITY,
                f32::NEG_INFINITY,
            ] {
                v.push(f as f64);
            }
            // every k/255 and k/65535 (images of the integer types) and their f32 neighbours
            for k in 0..=255u32 {
                let f = k as f32 / 255.0;
                for g in [f, f32::from_bits(f.to_bits().saturating_sub(1)), f32::from_bits(f.to_bits() + 1)] {
                    v.push(g as f64);
                }
            }
            let step = tier.pick(97u32, 1);
            let mut k = 0u32;
            while k <= 65535 {
                v.push((k as f32 / 65535.0) as f64);
                k += step;
            }
        }
    }
    v.sort_by(|a, b| a.partial_cmp(b).unwrap());
    v.dedup_by(|a, b| a.to_bits() == b.to_bits());
    v
}

/// Convert a list of component values through the real dynamic API (single-component types).
fn convert(s: PT, d: PT, vals: &[f64], width: u32) -> Result<Vec<f64>, MappingError> {
    let nc = s.ncomp();
    let npix = (vals.len() + nc - 1) / nc;
    let h = ((npix as u32) + width - 1) / width;
    let mut src = Raw::new(s, width, h);
    let sck = s.ck();
    for (i, &v) in vals.iter().enumerate() {
        set_comp(sck, src.buf.as_mut(), i, v);
    }
    let mut dst = Raw::filled(d, width, h, 0xA5);
    {
        let si = src.image_ref();
        let mut di = dst.image_mut();
        change_type_of_pixel_components(&si, &mut di)?;
    }
    let dck = d.ck();
    Ok((0..vals.len()).map(|i| get_comp(dck, dst.buf.as_ref(), i)).collect())
}

fn range(ck: CK, other: CK) -> (f64, f64) {
    match ck {
        CK::U8 => (0.0, 255.0),
        CK::U16 => (0.0, 65535.0),
        CK::I32 => (i32::MIN as f64, i32::MAX as f64),
        CK::F32 => {
            if other == CK::I32 {
                (-1.0, 1.0)
            } else {
                (0.0, 1.0)
            }
        }
    }
}

fn judge_scalar(ctx: &mut Ctx, s: PT, d: PT, dom: &[f64], out: &[f64]) {
    let (sck, dck) = (s.ck(), d.ck());
    let pair = format!("{:?}->{:?}", sck, dck);
    // monotone non-decreasing
    for i in 1..dom.len() {
        if out[i] < out[i - 1] {
            ctx.violation(format!("C17|{}|non-monotone", pair), || {
                json!({"src": format!("{:?}", s), "dst": format!("{:?}", d), "x0": dom[i-1], "f(x0)": out[i-1], "x1": dom[i], "f(x1)": out[i]})
            });
            break;
        }
    }
    // range / saturation
    let (dlo, dhi) = range(dck, sck);
    for i in 0..dom.len() {
        if !(out[i] >= dlo && out[i] <= dhi) && !(sck == CK::F32 && dck == CK::F32) && !(sck == dck) {
            ctx.violation(format!("C17|{}|out of destination range", pair), || json!({"x": dom[i], "f(x)": out[i]}));
            break;
        }
    }
    if sck == dck {
        for i in 0..dom.len() {
            if out[i].to_bits() != dom[i].to_bits() && !(out[i] == dom[i]) {
                ctx.violation(format!("C17|{}|same type is not identity", pair), || json!({"x": dom[i], "f(x)": out[i]}));
                break;
            }
        }
        return;
    }
    // endpoints
    let (slo, shi) = range(sck, dck);
    let at = |x: f64| dom.iter().position(|v| *v == x).map(|i| out[i]);
    let lo_img = at(slo);
    let hi_img = at(shi);
    let int_to_i32 = matches!(sck, CK::U8 | CK::U16) && dck == CK::I32;
    if let Some(v) = lo_img {
        let want = if int_to_i32 { 0.0 } else { dlo };
        if v != want {
            ctx.violation(format!("C17|{}|minimum not mapped to minimum", pair), || json!({"x": slo, "f(x)": v, "want": want}));
        }
    }
    if let Some(v) = hi_img {
        if int_to_i32 {
            // bit-shift convention: only "within one source quantum of MAX"
            let quantum = (i32::MAX as f64 + 1.0) / (shi + 1.0);
            if !(dhi - v < quantum && v <= dhi) {
                ctx.violation(format!("C17|{}|maximum not within a quantum of maximum", pair), || json!({"x": shi, "f(x)": v}));
            }
        } else if v != dhi {
            ctx.violation(format!("C17|{}|maximum not mapped to maximum", pair), || json!({"x": shi, "f(x)": v, "want": dhi}));
        }
    }
    // saturation of out-of-range floats
    if sck == CK::F32 {
        for i in 0..dom.len() {
            let x = dom[i];
            if x < slo && out[i] != dlo {
                ctx.violation(format!("C17|{}|below-range input not saturated to minimum", pair), || json!({"x": x, "f(x)": out[i], "want": dlo}));
                break;
            }
            if x > shi && out[i] != dhi {
                ctx.violation(format!("C17|{}|above-range input not saturated to maximum", pair), || json!({"x": x, "f(x)": out[i], "want": dhi}));
                break;
            }
        }
    }
    if sck == CK::I32 && matches!(dck, CK::U8 | CK::U16) {
        for i in 0..dom.len() {
            if dom[i] <= 0.0 && out[i] != 0.0 {
                ctx.violation(format!("C17|{}|non-positive input not mapped to 0", pair), || json!({"x": dom[i], "f(x)": out[i]}));
                break;
            }
        }
    }
}

fn scalar_pairs() -> Vec<(PT, PT)> {
    let one = [PT::U8, PT::U16, PT::I32, PT::F32];
    let mut v = vec![];
    for s in one {
        for d in one {
            v.push((s, d));
        }
    }
    v
}

pub fn prop(tier: Tier, _seed: u64) -> Prop {
    let mut p = Prop::new("C17");
    let pairs = scalar_pairs();
    // (1) scalar maps over the whole enumerated domain
    let pr = pairs.clone();
    p.spaces.push(Space::new("scalar maps (16 pairs x whole domain)", pairs.len() as u64 * 3, move |idx, ctx| {
        let (s, d) = pr[(idx / 3) as usize];
        let width = [1u32, 7, 64][(idx % 3) as usize];
        let dom = domain(s.ck(), tier);
        ctx.sample(|| json!({"src": format!("{:?}", s), "dst": format!("{:?}", d), "domain_size": dom.len(), "row_width": width, "first": dom[0], "last": dom[dom.len()-1]}));
        let out = match convert(s, d, &dom, width) {
            Ok(o) => o,
            Err(e) => {
                ctx.violation(format!("C17|{:?}->{:?}|supported pair rejected", s.ck(), d.ck()), || json!({"err": format!("{:?}", e)}));
                return;
            }
        };
        ctx.ops += dom.len() as u64;
        ctx.nontrivial += dom.len() as u64;
        judge_scalar(ctx, s, d, &dom, &out);
        ctx.class(mix(s.idx() as u64, d.idx() as u64));
        ctx.outcome(fnv(&out.iter().flat_map(|v| v.to_bits().to_le_bytes()).collect::<Vec<u8>>()));
        // NaN must map to an in-range value without panicking
        if s.ck() == CK::F32 {
            let o = convert(s, d, &[f64::NAN, 0.5, f64::NAN], 1).unwrap();
            let (dlo, dhi) = range(d.ck(), s.ck());
            if d.ck() != CK::F32 && !(o[0] >= dlo && o[0] <= dhi) {
                ctx.violation(format!("C17|F32->{:?}|NaN not mapped into range", d.ck()), || json!({"f(NaN)": o[0]}));
            }
        }
    }).isolated());

    // (2) widening round trips on every value
    let rts: Vec<(PT, PT)> = vec![(PT::U8, PT::U16), (PT::U8, PT::I32), (PT::U8, PT::F32), (PT::U16, PT::I32), (PT::U16, PT::F32)];
    let rts2 = rts.clone();
    p.spaces.push(Space::new("widening round trips", rts.len() as u64 * 4, move |idx, ctx| {
        let (n, wd) = rts2[(idx / 4) as usize];
        let nc = (idx % 4) as usize + 1;
        let (Some(ns), Some(ws)) = (n.with_ncomp(nc), wd.with_ncomp(nc)) else { return };
        if !supported(ns, ws) {
            return;
        }
        let dom = domain(n.ck(), tier);
        ctx.sample(|| json!({"narrow": format!("{:?}", ns), "wide": format!("{:?}", ws), "values": dom.len()}));
        // value at every component position: channel c carries dom[(p + 7c) mod V]
        let v = dom.len();
        let mut vals = Vec::with_capacity(v * nc);
        for pidx in 0..v {
            for c in 0..nc {
                vals.push(dom[(pidx + 7 * c) % v]);
            }
        }
        let wide = convert(ns, ws, &vals, 5).unwrap();
        let back = convert(ws, ns, &wide, 3).unwrap();
        ctx.ops += 2 * vals.len() as u64;
        ctx.nontrivial += vals.len() as u64;
        ctx.traces += vals.len() as u64;
        for i in 0..vals.len() {
            if back[i] != vals[i] {
                ctx.violation(format!("C17|{:?}->{:?}->{:?}|round trip not identity", n.ck(), wd.ck(), n.ck()), || {
                    json!({"narrow": format!("{:?}", ns), "wide": format!("{:?}", ws), "x": vals[i], "wide(x)": wide[i], "back": back[i], "component": i % nc})
                });
                break;
            }
        }
        ctx.class(mix(ns.idx() as u64, ws.idx() as u64 + 100));
        ctx.outcome(fnv(&wide.iter().flat_map(|v| v.to_bits().to_le_bytes()).collect::<Vec<u8>>()));
    }).isolated());

    // (3) multi-component types agree with the scalar map at every component position
    let multi: Vec<(PT, PT)> = {
        let mut v = vec![];
        for s in ALL_PT {
            for d in ALL_PT {
                if s.ncomp() > 1 && supported(s, d) {
                    v.push((s, d));
                }
            }
        }
        v
    };
    let m2 = multi.clone();
    p.spaces.push(Space::new("multi-component vs scalar map", multi.len() as u64 * 3, move |idx, ctx| {
        let (s, d) = m2[(idx / 3) as usize];
        let width = [1u32, 3, 9][(idx % 3) as usize];
        let nc = s.ncomp();
        let dom = domain(s.ck(), tier);
        ctx.sample(|| json!({"src": format!("{:?}", s), "dst": format!("{:?}", d), "row_width": width}));
        let s1 = s.with_ncomp(1).unwrap();
        let d1 = d.with_ncomp(1).unwrap();
        let scalar = convert(s1, d1, &dom, 16).unwrap();
        let v = dom.len();
        let mut vals = Vec::with_capacity(v * nc);
        let mut want = Vec::with_capacity(v * nc);
        for pidx in 0..v {
            for c in 0..nc {
                let k = (pidx + 7 * c) % v;
                vals.push(dom[k]);
                want.push(scalar[k]);
            }
        }
        let got = convert(s, d, &vals, width).unwrap();
        ctx.ops += vals.len() as u64;
        ctx.traces += vals.len() as u64;
        ctx.nontrivial += vals.len() as u64;
        for i in 0..vals.len() {
            if got[i].to_bits() != want[i].to_bits() && got[i] != want[i] {
                ctx.violation(format!("C17|{:?}->{:?}|component {} of {} differs from scalar map", s.ck(), d.ck(), i % nc, nc), || {
                    json!({"src": format!("{:?}", s), "dst": format!("{:?}", d), "x": vals[i], "got": got[i], "scalar": want[i], "pixel": i / nc})
                });
                break;
            }
        }
        ctx.class(mix(s.idx() as u64, d.idx() as u64 + 200));
    }).isolated());

    // (4) acceptance / rejection matrix and untouched destination
    p.spaces.push(Space::new("type-pair and size matrix", 169 * 4, move |idx, ctx| {
        let s = ALL_PT[(idx / 4 / 13) as usize];
        let d = ALL_PT[(idx / 4 % 13) as usize];
        let variant = idx % 4;
        let (sw, sh) = (3u32, 2u32);
        let (dw, dh) = match variant {
            0 => (3, 2),
            1 => (2, 3),
            2 => (3, 3),
            _ => (4, 2),
        };
        ctx.sample(|| json!({"src": format!("{:?} {}x{}", s, sw, sh), "dst": format!("{:?} {}x{}", d, dw, dh)}));
        let mut l = Lcg::new(idx);
        let src = Raw::from_fn(s, sw, sh, |_, _, _| l.comp(s.ck()));
        let mut dst = Raw::filled(d, dw, dh, 0xA5);
        let before = dst.bytes().to_vec();
        let src_before = src.bytes().to_vec();
        let r = {
            let si = src.image_ref();
            let (w, h, pt) = (dst.w, dst.h, dst.pt.fir());
            let mut di = Image::from_slice_u8(w, h, dst.buf.as_mut(), pt).unwrap();
            change_type_of_pixel_components(&si, &mut di)
        };
        ctx.ops += 1;
        ctx.nontrivial += 1;
        let sup = supported(s, d);
        let same = (dw, dh) == (sw, sh);
        let want_ok = sup && same;
        match (&r, want_ok) {
            (Ok(()), true) => {}
            (Err(_), false) => {
                if dst.bytes() != &before[..] {
                    ctx.violation("C17|rejected call modified destination", || json!({"src": format!("{:?}", s), "dst": format!("{:?}", d), "err": format!("{:?}", r)}));
                }
                let want = if !sup { MappingError::UnsupportedCombinationOfImageTypes } else { MappingError::DifferentDimensions };
                if r != Err(want) {
                    ctx.violation("C17|wrong error kind", || json!({"src": format!("{:?}", s), "dst": format!("{:?}", d), "got": format!("{:?}", r), "want": format!("{:?}", want)}));
                }
            }
            (Ok(()), false) => ctx.violation(format!("C17|accepted {}", if !sup { "unsupported pair" } else { "size mismatch" }), || {
                json!({"src": format!("{:?} {}x{}", s, sw, sh), "dst": format!("{:?} {}x{}", d, dw, dh)})
            }),
            (Err(e), true) => ctx.violation("C17|supported pair rejected", || json!({"src": format!("{:?}", s), "dst": format!("{:?}", d), "err": format!("{:?}", e)})),
        }
        if src.bytes() != &src_before[..] {
            ctx.violation("C17|source modified", || json!({}));
        }
        ctx.class(mix(mix(s.idx() as u64, d.idx() as u64), variant + 300));
        ctx.outcome(mix(r.is_ok() as u64, fnv(dst.bytes())));
    }).isolated());

    p.rule = "all 16 scalar (src,dst) component-kind pairs over the whole enumerated source domain (all 256 / 65536 integers; I32: ±2^k±{0,1}, stride sweep, widening images ± half-quantum; F32: 2^8/2^12 values per binade for exponents -30..1 both signs, ±0, denormals, ±1±eps, ±inf, NaN, ±3e38, every k/255, k/65535) at 3 row widths; 5 widening round trips x 1-4 components with each value at every component position; 27 multi-component pairs vs the scalar map; the full 13x13 type matrix x 4 size variants for accept/reject. distinct_nontrivial counts component values judged".into();
    p.bounds = json!({"i32_stride": tier.pick(65521 * 16, 65521), "f32_per_binade": tier.pick(256, 4096)});
    p.assumptions = vec![
        "u8/u16 -> i32 uses the crate's bit-shift convention: only 0->0, monotone, max within one source quantum of i32::MAX and the round trip are required (DESIGN §4 C17 interpretation note)".into(),
        "f32 source range is [0,1] towards u8/u16 and [-1,1] towards i32".into(),
    ];
    p
}
