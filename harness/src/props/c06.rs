//! C06 — alpha multiply is exactly rounded, alpha divide is faithful and saturating.
use crate::explore::*;
use crate::px::*;
use crate::typed::*;
use crate::with_pt;
use crate::{Prop, Tier};
use fast_image_resize as fir;
use fir::images::{Image, TypedImage, TypedImageRef};
use fir::MulDiv;
use serde_json::json;

#[derive(Clone, Copy, Debug, PartialEq, Eq)]
pub enum Op {
    Mul,
    Div,
}

#[derive(Clone, Copy, Debug, PartialEq, Eq)]
pub enum Entry {
    TwoDyn,
    InplaceDyn,
    TwoTyped,
    InplaceTyped,
}
pub const ENTRIES: [Entry; 4] = [Entry::TwoDyn, Entry::InplaceDyn, Entry::TwoTyped, Entry::InplaceTyped];

pub fn mul_div(be: BE) -> MulDiv {
    let mut m = MulDiv::new();
    unsafe { m.set_cpu_extensions(be.fir()) };
    m
}

/// Run one alpha operation through one entry point; Err carries the Debug of the error.
pub fn run_op(op: Op, entry: Entry, be: BE, src: &Raw) -> Result<Raw, String> {
    let m = mul_div(be);
    let mut dst = Raw::filled(src.pt, src.w, src.h, 0xA5);
    let (w, h) = (src.w, src.h);
    match entry {
        Entry::TwoDyn => {
            let s = src.image_ref();
            let mut d = dst.image_mut();
            match op {
                Op::Mul => m.multiply_alpha(&s, &mut d).map_err(|e| format!("{:?}", e))?,
                Op::Div => m.divide_alpha(&s, &mut d).map_err(|e| format!("{:?}", e))?,
            }
        }
        Entry::InplaceDyn => {
            dst.bytes_mut().copy_from_slice(src.bytes());
            let mut d = dst.image_mut();
            match op {
                Op::Mul => m.multiply_alpha_inplace(&mut d).map_err(|e| format!("{:?}", e))?,
                Op::Div => m.divide_alpha_inplace(&mut d).map_err(|e| format!("{:?}", e))?,
            }
        }
        Entry::TwoTyped => {
            with_pt!(src.pt, P => {
                let s = TypedImageRef::<P>::new(w, h, as_pixels::<P>(src.bytes())).unwrap();
                let mut d = TypedImage::<P>::from_pixels_slice(w, h, as_pixels_mut::<P>(dst.buf.as_mut())).unwrap();
                match op {
                    Op::Mul => m.multiply_alpha_typed(&s, &mut d).map_err(|e| format!("{:?}", e))?,
                    Op::Div => m.divide_alpha_typed(&s, &mut d).map_err(|e| format!("{:?}", e))?,
                }
            })
        }
        Entry::InplaceTyped => {
            dst.bytes_mut().copy_from_slice(src.bytes());
            with_pt!(src.pt, P => {
                let mut d = TypedImage::<P>::from_pixels_slice(w, h, as_pixels_mut::<P>(dst.buf.as_mut())).unwrap();
                match op {
                    Op::Mul => m.multiply_alpha_inplace_typed(&mut d).map_err(|e| format!("{:?}", e))?,
                    Op::Div => m.divide_alpha_inplace_typed(&mut d).map_err(|e| format!("{:?}", e))?,
                }
            })
        }
    }
    Ok(dst)
}

/// Exact integer oracle. Returns None if `got` is acceptable, else a failure class.
#[inline]
pub fn judge_int(op: Op, c: u64, a: u64, max: u64, got: u64) -> Option<&'static str> {
    match op {
        Op::Mul => {
            let want = (2 * c * a + max) / (2 * max);
            if got == want {
                None
            } else {
                Some("not exactly rounded")
            }
        }
        Op::Div => {
            if a == 0 {
                return if got == 0 { None } else { Some("alpha 0 does not give colour 0") };
            }
            let fl = (c * max / a).min(max);
            let ce = ((c * max + a - 1) / a).min(max);
            if got == fl || got == ce {
                None
            } else if c > a {
                Some("not saturated (c*max/a > max)")
            } else {
                Some("not faithful (unsaturated range)")
            }
        }
    }
}

#[inline]
fn judge_f32(op: Op, c: f32, a: f32, got: f32) -> bool {
    let want = match op {
        Op::Mul => c * a,
        Op::Div => {
            if a == 0.0 {
                0.0
            } else {
                c / a
            }
        }
    };
    got == want || (got.is_nan() && want.is_nan())
}

/// Compare a whole result image with the oracle; report at most one violation per failure class.
fn judge_image(ctx: &mut Ctx, op: Op, entry: Entry, be: BE, src: &Raw, out: &Raw) {
    let pt = src.pt;
    let nc = pt.ncomp();
    let ck = pt.ck();
    let max = ck.max() as u64;
    let mut seen: Vec<&'static str> = vec![];
    for y in 0..src.h {
        for x in 0..src.w {
            let a = src.get(x, y, nc - 1);
            let ga = out.get(x, y, nc - 1);
            // by value: -0.0 and 0.0 are the same alpha (floats are compared by value throughout)
            if !(ga == a || (ga.is_nan() && a.is_nan())) && !seen.contains(&"alpha changed") {
                seen.push("alpha changed");
                ctx.violation(format!("C06|{:?}|{:?}|{:?}|alpha component changed", op, pt, be), || {
                    json!({"entry": format!("{:?}", entry), "x": x, "y": y, "alpha_in": a, "alpha_out": ga, "width": src.w})
                });
            }
            for c in 0..nc - 1 {
                let cv = src.get(x, y, c);
                let gv = out.get(x, y, c);
                let fail = if ck == CK::F32 {
                    if judge_f32(op, cv as f32, a as f32, gv as f32) {
                        None
                    } else {
                        Some("not the IEEE product/quotient")
                    }
                } else {
                    judge_int(op, cv as u64, a as u64, max, gv as u64)
                };
                if let Some(class) = fail {
                    if !seen.contains(&class) {
                        seen.push(class);
                        ctx.violation(format!("C06|{:?}|{:?}|{:?}|{}", op, pt, be, class), || {
                            json!({"entry": format!("{:?}", entry), "colour": cv, "alpha": a, "got": gv, "x": x, "y": y, "component": c, "width": src.w, "height": src.h})
                        });
                    }
                }
            }
        }
    }
}

const B16: [u32; 15] = [0, 1, 2, 3, 127, 128, 255, 256, 257, 32767, 32768, 32769, 65533, 65534, 65535];

fn boundary_set_16() -> Vec<u32> {
    let mut v: Vec<u32> = vec![];
    for k in 0..=16 {
        let b = 1u32 << k;
        for d in [-2i64, -1, 0, 1, 2] {
            let x = b as i64 + d;
            if (0..65536).contains(&x) {
                v.push(x as u32);
            }
        }
    }
    v.extend(0..64);
    v.extend(65536 - 64..65536);
    v.extend((0..65536).step_by(257));
    v.extend([21845, 21846, 43690, 43691, 32769, 32767, 255 * 128, 255 * 129]);
    v.sort();
    v.dedup();
    v
}

fn float_alphabet() -> Vec<f32> {
    vec![
        0.0,
        -0.0,
        f32::from_bits(1),
        f32::from_bits(0x0040_0000),
        f32::MIN_POSITIVE,
        (2.0f32).powi(-24),
        0.25,
        0.5,
        1.0 - f32::EPSILON / 2.0,
        1.0,
        1.0 + f32::EPSILON,
        2.0,
        255.0,
        65535.0,
        3.0e38,
        1.0 / 3.0,
        // negative alpha is an ordinary value for float images (a negative-lobe filter undershoots
        // at a transparency edge): c/a, not "transparent"
        -f32::MIN_POSITIVE,
        -0.25,
        -1.0,
        -2.0,
        -65535.0,
    ]
}

pub fn prop(tier: Tier, _seed: u64) -> Prop {
    let mut p = Prop::new("C06");
    let bes = backends();

    // ---- (1) 8-bit: all 65536 pairs in many layouts
    let mut layouts: Vec<(u32, u32)> = (1..=70u32).map(|w| (w, 0)).collect();
    for off in 1..32 {
        layouts.push((64, off));
        layouts.push((67, off));
    }
    let types8 = [PT::U8x2, PT::U8x4];
    let dims = vec![2u64, layouts.len() as u64, bes.len() as u64, 4];
    let (d2, l2, b2) = (dims.clone(), layouts.clone(), bes.clone());
    p.spaces.push(Space::new("8-bit all 65536 pairs x layouts x back-end x entry", product(&dims), move |idx, ctx| {
        let mut d = [0usize; 4];
        decode(idx, &d2, &mut d);
        let (pt, (w, off), be, entry) = (types8[d[0]], l2[d[1]], b2[d[2]], ENTRIES[d[3]]);
        ctx.sample(|| json!({"type": format!("{:?}", pt), "row_width": w, "offset": off, "backend": format!("{:?}", be), "entry": format!("{:?}", entry), "pairs": 65536}));
        let h = (65536 + w - 1) / w;
        let nc = pt.ncomp();
        let src = Raw::from_fn(pt, w, h, |x, y, c| {
            let k = ((y * w + x + off) % 65536) as u32;
            let (col, a) = (k & 0xff, k >> 8);
            if c == nc - 1 {
                a as f64
            } else {
                match c {
                    0 => col as f64,
                    1 => ((col + 85) % 256) as f64,
                    _ => (255 - col) as f64,
                }
            }
        });
        for op in [Op::Mul, Op::Div] {
            match run_op(op, entry, be, &src) {
                Ok(out) => {
                    judge_image(ctx, op, entry, be, &src, &out);
                    ctx.outcome(fnv(out.bytes()));
                }
                Err(e) => ctx.violation(format!("C06|{:?}|{:?}|rejected", op, pt), || json!({"err": e})),
            }
            ctx.ops += (w * h) as u64;
        }
        ctx.nontrivial += 65536;
        ctx.class(mix(mix(d[0] as u64, d[2] as u64), mix((w % 32) as u64, (d[3] * 64) as u64 + (off % 32) as u64)));
    }).isolated());

    // ---- (2) 16-bit pairs: one alpha per case x all 65536 colours (thorough: every alpha)
    let alphas: Vec<u32> = if tier == Tier::Thorough { (0..65536).collect() } else { boundary_set_16() };
    let types16 = [PT::U16x2, PT::U16x4];
    let na = alphas.len() as u64;
    let (a2, b3) = (alphas.clone(), bes.clone());
    p.spaces.push(Space::new("16-bit alpha x all 65536 colours", na * 2, move |idx, ctx| {
        let a = a2[(idx / 2) as usize];
        let pt = types16[(idx % 2) as usize];
        let nc = pt.ncomp();
        ctx.sample(|| json!({"type": format!("{:?}", pt), "alpha": a, "colours": "all 65536 (x3 channels for U16x4)", "backends": format!("{:?}", b3)}));
        let (w, h) = (1024u32, 64u32);
        let src = Raw::from_fn(pt, w, h, |x, y, c| {
            let col = y * w + x;
            if c == nc - 1 {
                a as f64
            } else {
                match c {
                    0 => col as f64,
                    1 => ((col + 21845) % 65536) as f64,
                    _ => (65535 - col) as f64,
                }
            }
        });
        for &be in b3.iter() {
            for op in [Op::Mul, Op::Div] {
                let out = run_op(op, Entry::InplaceTyped, be, &src).unwrap();
                judge_image(ctx, op, Entry::InplaceTyped, be, &src, &out);
                ctx.ops += 65536;
                if a % 4099 == 0 {
                    ctx.outcome(fnv(out.bytes()));
                }
            }
        }
        ctx.nontrivial += 65536;
        ctx.class(mix(a.leading_zeros() as u64, idx % 2 + 7000));
    }).isolated());

    // ---- (2b) 16-bit: one colour per case x all 65536 alphas (boundary colours)
    let cols = boundary_set_16();
    let ncol = cols.len() as u64;
    let (c2, b4) = (cols.clone(), bes.clone());
    p.spaces.push(Space::new("16-bit colour x all 65536 alphas", ncol * 2, move |idx, ctx| {
        let col = c2[(idx / 2) as usize];
        let pt = types16[(idx % 2) as usize];
        let nc = pt.ncomp();
        ctx.sample(|| json!({"type": format!("{:?}", pt), "colour": col, "alphas": "all 65536"}));
        let (w, h) = (1021u32, 65u32);
        let src = Raw::from_fn(pt, w, h, |x, y, c| {
            let a = (y * w + x) % 65536;
            if c == nc - 1 {
                a as f64
            } else {
                match c {
                    0 => col as f64,
                    1 => (65535 - col) as f64,
                    _ => ((col + 1) % 65536) as f64,
                }
            }
        });
        for &be in b4.iter() {
            for op in [Op::Mul, Op::Div] {
                let out = run_op(op, Entry::TwoTyped, be, &src).unwrap();
                judge_image(ctx, op, Entry::TwoTyped, be, &src, &out);
                ctx.ops += (w * h) as u64;
            }
        }
        ctx.nontrivial += 65536;
        ctx.class(mix(col.leading_zeros() as u64, idx % 2 + 9000));
    }).isolated());

    // ---- (3) 16-bit lane / width sweep on the boundary alphabet, all entry points
    let mut pairs16: Vec<(u32, u32)> = vec![];
    for &c in B16.iter() {
        for &a in B16.iter() {
            pairs16.push((c, a));
        }
    }
    let wmax: u32 = 70;
    let dims3 = vec![2u64, wmax as u64, 8, bes.len() as u64, 4];
    let (d3, b5, pr) = (dims3.clone(), bes.clone(), pairs16.clone());
    p.spaces.push(Space::new("16-bit boundary pairs x width x offset x back-end x entry", product(&dims3), move |idx, ctx| {
        let mut d = [0usize; 5];
        decode(idx, &d3, &mut d);
        let (pt, w, off, be, entry) = (types16[d[0]], d[1] as u32 + 1, d[2], b5[d[3]], ENTRIES[d[4]]);
        let nc = pt.ncomp();
        let np = pr.len();
        ctx.sample(|| json!({"type": format!("{:?}", pt), "row_width": w, "offset": off, "backend": format!("{:?}", be), "entry": format!("{:?}", entry), "pairs": np}));
        let h = (np as u32 + w - 1) / w;
        let src = Raw::from_fn(pt, w, h, |x, y, c| {
            let (col, a) = pr[((y * w + x) as usize + off) % np];
            if c == nc - 1 {
                a as f64
            } else {
                match c {
                    0 => col as f64,
                    1 => pr[((y * w + x) as usize + off + 37) % np].0 as f64,
                    _ => (65535 - col) as f64,
                }
            }
        });
        for op in [Op::Mul, Op::Div] {
            match run_op(op, entry, be, &src) {
                Ok(out) => {
                    judge_image(ctx, op, entry, be, &src, &out);
                    ctx.outcome(fnv(out.bytes()));
                }
                Err(e) => ctx.violation(format!("C06|{:?}|{:?}|rejected", op, pt), || json!({"err": e})),
            }
            ctx.ops += (w * h) as u64;
        }
        ctx.nontrivial += 1;
        ctx.class(mix(mix(d[0] as u64 + 50, d[3] as u64), mix((w % 16) as u64, (d[4] * 8 + off) as u64)));
    }).isolated());

    // ---- (4) floats
    let fa = float_alphabet();
    let mut fpairs: Vec<(f32, f32)> = vec![];
    for &c in fa.iter() {
        for &a in fa.iter() {
            fpairs.push((c, a));
        }
    }
    let typesf = [PT::F32x2, PT::F32x4];
    let dims4 = vec![2u64, 40, 8, bes.len() as u64, 4];
    let (d4, b6, fp) = (dims4.clone(), bes.clone(), fpairs.clone());
    p.spaces.push(Space::new("float pairs x width x offset x back-end x entry", product(&dims4), move |idx, ctx| {
        let mut d = [0usize; 5];
        decode(idx, &d4, &mut d);
        let (pt, w, off, be, entry) = (typesf[d[0]], d[1] as u32 + 1, d[2], b6[d[3]], ENTRIES[d[4]]);
        let nc = pt.ncomp();
        let np = fp.len();
        ctx.sample(|| json!({"type": format!("{:?}", pt), "row_width": w, "offset": off, "backend": format!("{:?}", be), "entry": format!("{:?}", entry), "pairs": np}));
        let h = (np as u32 + w - 1) / w;
        let src = Raw::from_fn(pt, w, h, |x, y, c| {
            let (col, a) = fp[((y * w + x) as usize + off) % np];
            if c == nc - 1 {
                a as f64
            } else {
                match c {
                    0 => col as f64,
                    1 => fp[((y * w + x) as usize + off + 37) % np].0 as f64,
                    _ => -(col as f64),
                }
            }
        });
        for op in [Op::Mul, Op::Div] {
            match run_op(op, entry, be, &src) {
                Ok(out) => {
                    judge_image(ctx, op, entry, be, &src, &out);
                    ctx.outcome(fnv(out.bytes()));
                }
                Err(e) => ctx.violation(format!("C06|{:?}|{:?}|rejected", op, pt), || json!({"err": e})),
            }
            ctx.ops += (w * h) as u64;
        }
        ctx.nontrivial += 1;
        ctx.class(mix(mix(d[0] as u64 + 90, d[3] as u64), mix((w % 8) as u64, (d[4] * 8 + off) as u64)));
    }).isolated());

    // ---- (4b) uniform runs: a run of L identical special pixels at offset O inside filler pixels.
    //      Fast paths for "all opaque" / "all zero" / "all equal" vector chunks live here.
    let specials: [(f64, f64); 5] = [(0.0, 0.0), (1.0, 1.0), (0.0, 1.0), (0.7, 0.0), (0.5, 0.5)]; // (colour, alpha) as fractions of max
    let dims4b = vec![6u64, bes.len() as u64, 4, 2];
    let (d4b, b4b) = (dims4b.clone(), bes.clone());
    p.spaces.push(Space::new("uniform runs: run length 1..24 x offset 0..15 x special pixel pairs (zero, opaque, transparent-with-colour, half) x 6 alpha types x back-end x entry x op", product(&dims4b), move |idx, ctx| {
        let mut d = [0usize; 4];
        decode(idx, &d4b, &mut d);
        let (pt, be, entry, op) = (ALPHA_PT[d[0]], b4b[d[1]], ENTRIES[d[2]], if d[3] == 0 { Op::Mul } else { Op::Div });
        let ck = pt.ck();
        let nc = pt.ncomp();
        let m = if ck == CK::F32 { 1.0 } else { ck.max() };
        let val = |f: f64| if ck.is_int() { (f * m).round() } else { f };
        ctx.sample(|| json!({"type": format!("{:?}", pt), "backend": format!("{:?}", be), "entry": format!("{:?}", entry), "op": format!("{:?}", op), "rows": "every (run pixel A, filler pixel B, length 1..24, offset 0..15), width 48"}));
        if ctx.describe_only {
            return;
        }
        let w = 48u32;
        let mut rows: Vec<(usize, usize, u32, u32)> = vec![];
        for a in 0..5 {
            for b in 0..5 {
                if a == b {
                    continue;
                }
                for len in 1..=24u32 {
                    for off in 0..16u32 {
                        rows.push((a, b, len, off));
                    }
                }
            }
        }
        let h = rows.len() as u32;
        let src = Raw::from_fn(pt, w, h, |x, y, c| {
            let (a, b, len, off) = rows[y as usize];
            let (col, al) = if x >= off && x < off + len { specials[a] } else { specials[b] };
            if c == nc - 1 {
                val(al)
            } else {
                val(col) - if ck.is_int() && c == 1 && col > 0.0 { 1.0 } else { 0.0 }
            }
        });
        match run_op(op, entry, be, &src) {
            Ok(out) => {
                judge_image(ctx, op, entry, be, &src, &out);
                ctx.outcome(fnv(out.bytes()));
            }
            Err(e) => ctx.violation(format!("C06|{:?}|{:?}|rejected", op, pt), || json!({"err": e})),
        }
        ctx.ops += (w * h) as u64;
        ctx.nontrivial += rows.len() as u64;
        ctx.class(mix(mix(d[0] as u64 + 700, d[1] as u64), (d[2] * 2 + d[3]) as u64));
    }).isolated());

    // ---- (5) rejections
    let b7 = bes.clone();
    p.spaces.push(Space::new("rejections: non-alpha types, size (both / width only / height only) and type mismatch", 13 * 13 * 4 * 4, move |idx, ctx| {
        let mut d = [0usize; 4];
        decode(idx, &[13, 13, 4, 4], &mut d);
        let (s, t, szv, ent) = (ALL_PT[d[0]], ALL_PT[d[1]], d[2], d[3]);
        let be = b7[idx as usize % b7.len()];
        ctx.sample(|| json!({"src": format!("{:?}", s), "dst": format!("{:?}", t), "size_mismatch": szv != 0, "variant": ent}));
        let m = mul_div(be);
        let mut l = Lcg::new(idx);
        let src = Raw::from_fn(s, 3, 2, |_, _, _| l.comp(s.ck()));
        let (dw, dh) = [(3, 2), (2, 3), (2, 2), (3, 3)][szv];
        let mut dst = Raw::filled(t, dw, dh, 0xA5);
        let before = dst.bytes().to_vec();
        let (op_mul, inplace) = (ent % 2 == 0, ent / 2 == 1);
        let res: Result<(), String> = {
            let si = src.image_ref();
            let (w, h, ptf) = (dst.w, dst.h, dst.pt.fir());
            let mut di = Image::from_slice_u8(w, h, dst.buf.as_mut(), ptf).unwrap();
            if inplace {
                if op_mul { m.multiply_alpha_inplace(&mut di).map_err(|e| format!("{:?}", e)) } else { m.divide_alpha_inplace(&mut di).map_err(|e| format!("{:?}", e)) }
            } else if op_mul {
                m.multiply_alpha(&si, &mut di).map_err(|e| format!("{:?}", e))
            } else {
                m.divide_alpha(&si, &mut di).map_err(|e| format!("{:?}", e))
            }
        };
        ctx.ops += 1;
        ctx.nontrivial += 1;
        let want_ok = if inplace { t.has_alpha() } else { s == t && s.has_alpha() && szv == 0 };
        if res.is_ok() != want_ok {
            ctx.violation(format!("C06|gate|{}", if want_ok { "supported call rejected" } else { "unsupported call accepted" }), || {
                json!({"src": format!("{:?}", s), "dst": format!("{:?}", t), "inplace": inplace, "dst_size": [dw, dh], "src_size": [3, 2], "result": format!("{:?}", res)})
            });
        }
        if res.is_err() && dst.bytes() != &before[..] {
            ctx.violation("C06|gate|rejected call modified destination", || json!({"src": format!("{:?}", s), "dst": format!("{:?}", t)}));
        }
        if m.is_supported(s.fir()) != s.has_alpha() {
            ctx.violation("C06|gate|is_supported wrong", || json!({"type": format!("{:?}", s)}));
        }
        ctx.class(mix(mix(d[0] as u64, d[1] as u64), (d[2] * 4 + d[3]) as u64 + 5000));
        ctx.outcome(mix(res.is_ok() as u64, fnv(dst.bytes())));
    }).isolated());

    p.rule = "8-bit: all 65536 (colour,alpha) pairs (three colour channels for U8x4) in 132 layouts (row widths 1..70; widths 64 and 67 at offsets 1..31 so each pair meets every lane residue of the vector loop, the remainder and the tail) x back-end x 4 entry points; 16-bit: each alpha of the tier's alpha set x all 65536 colours and each boundary colour x all 65536 alphas on every back-end, plus the 15^2 boundary pairs x widths 1..70 x offsets 0..7 x back-end x entry point; floats: 16^2 pairs x widths 1..40 x offsets x back-end x entry; 13x13 rejection matrix. Oracle: exact integer arithmetic".into();
    p.bounds = json!({"alphas_16bit": alphas.len(), "all_2^32_pairs": tier == Tier::Thorough, "boundary_colours_16bit": cols.len()});
    p.assumptions = vec!["floats compared by value with the IEEE single-precision product/quotient".into()];
    p
}
