//! C07 — alpha-aware resizing ignores the colour of fully transparent pixels.
use crate::alg::*;
use crate::conv::*;
use crate::explore::*;
use crate::props::c01::alg_class;
use crate::px::*;
use crate::{Prop, Tier};
use serde_json::json;

fn amax(ck: CK) -> f64 {
    if ck == CK::F32 {
        1.0
    } else {
        ck.max()
    }
}

fn level_value(ck: CK, level: u8) -> f64 {
    match level {
        0 => 0.0,
        1 => {
            if ck == CK::F32 {
                0.5
            } else {
                (ck.max() / 2.0).floor()
            }
        }
        _ => amax(ck),
    }
}

/// All masks over `n` positions with `levels` alpha levels (2: {0,max}; 3: {0,mid,max}).
fn all_masks(n: usize, levels: u8) -> Vec<Vec<u8>> {
    let total = (levels as u64).pow(n as u32);
    (0..total)
        .map(|mut m| {
            (0..n)
                .map(|_| {
                    let d = (m % levels as u64) as u8;
                    m /= levels as u64;
                    if levels == 2 {
                        d * 2
                    } else {
                        d
                    }
                })
                .collect()
        })
        .collect()
}

/// Colour stored under a transparent pixel, by variant.
fn hidden_colour(ck: CK, variant: usize, x: u32, y: u32, c: usize) -> f64 {
    match variant {
        0 => 0.0,
        1 => {
            if ck == CK::F32 {
                1.0e6
            } else {
                ck.max()
            }
        }
        2 => match ck {
            CK::U8 => 0x55 as f64,
            CK::U16 => 0x5555 as f64,
            _ => -0.333,
        },
        _ => {
            let mut l = Lcg::new(0xC07 ^ ((x as u64) << 20) ^ ((y as u64) << 8) ^ c as u64);
            if ck == CK::F32 {
                l.comp(ck) * 100.0 - 50.0
            } else {
                l.comp(ck)
            }
        }
    }
}

fn visible_colour(ck: CK, x: u32, y: u32, c: usize, seed: u64) -> f64 {
    let mut l = Lcg::new(seed ^ 0xA1FA ^ ((x as u64) << 24) ^ ((y as u64) << 4) ^ c as u64);
    l.comp(ck)
}

/// Build the image for an alpha-level map (levels[y][x]) and a hidden-colour variant.
fn build(pt: PT, levels: &[Vec<u8>], variant: usize, seed: u64) -> Raw {
    let ck = pt.ck();
    let nc = pt.ncomp();
    let (h, w) = (levels.len() as u32, levels[0].len() as u32);
    Raw::from_fn(pt, w, h, |x, y, c| {
        let lv = levels[y as usize][x as usize];
        if c == nc - 1 {
            level_value(ck, lv)
        } else if lv == 0 {
            hidden_colour(ck, variant, x, y, c)
        } else {
            visible_colour(ck, x, y, c, seed)
        }
    })
}

fn ulp32(x: f64) -> f64 {
    let a = (x.abs() as f32).max(f32::MIN_POSITIVE);
    (f32::from_bits(a.to_bits() + 1) - a) as f64
}

/// The four oracles on one geometry given the alpha-level map.
#[allow(clippy::too_many_arguments)]
fn check_map(ctx: &mut Ctx, pt: PT, be: BE, levels: &[Vec<u8>], dw: u32, dh: u32, o: &Opts, seed: u64, what: &str) {
    let ck = pt.ck();
    let nc = pt.ncomp();
    // a destination of exactly the (integer) crop size is a bit-exact copy (C12), not a resampling
    let (sw, sh) = (levels[0].len() as u32, levels.len() as u32);
    let idx_x = axis_is_identity(o.cx.unwrap_or(Crop1 { start: 0.0, len: sw as f64 }), dw);
    let idx_y = axis_is_identity(o.cy.unwrap_or(Crop1 { start: 0.0, len: sh as f64 }), dh);
    if idx_x && idx_y {
        ctx.note("same-size geometries excluded (exact copy, C12)", 1);
        return;
    }
    let mut rz = new_resizer(be);
    let mut on = *o;
    on.alpha = true;
    let srcs: Vec<Raw> = (0..4).map(|v| build(pt, levels, v, seed)).collect();
    let outs: Vec<Raw> = srcs.iter().map(|s| resize_raw(&mut rz, s, dw, dh, &on).expect("valid geometry")).collect();
    ctx.ops += 4;
    let det = |extra: serde_json::Value| {
        json!({"pixel": format!("{:?}", pt), "backend": format!("{:?}", be), "src": [levels[0].len(), levels.len()], "dst": [dw, dh], "alg": format!("{:?}", o.alg), "crop": format!("{:?} {:?}", o.cx, o.cy), "family": what, "more": extra})
    };
    let n = (dw * dh) as usize * nc;
    // (1) independence from colours under alpha = 0
    for v in 1..4 {
        let diff = (0..n).find(|&i| {
            let (a, b) = (get_comp(ck, outs[0].bytes(), i), get_comp(ck, outs[v].bytes(), i));
            if ck.is_int() {
                a != b
            } else {
                !(a == b || (a.is_nan() && b.is_nan()))
            }
        });
        ctx.traces += 1;
        if let Some(i) = diff {
            let px = i / nc;
            let (x, y) = (px as u32 % dw, px as u32 / dw);
            ctx.violation(format!("C07|{}|{:?}|{:?}|result depends on the colour stored under alpha = 0", alg_class(o.alg), pt, be), || {
                det(json!({"variant": v, "at": [x, y, i % nc], "hidden=0": get_comp(ck, outs[0].bytes(), i), "hidden=variant": get_comp(ck, outs[v].bytes(), i), "alpha_row": levels[(y as usize).min(levels.len() - 1)]}))
            });
            break;
        }
    }
    // (2) zero alpha => zero colour
    'z: for y in 0..dh {
        for x in 0..dw {
            if outs[3].get(x, y, nc - 1) == 0.0 {
                for c in 0..nc - 1 {
                    let v = outs[3].get(x, y, c);
                    if v != 0.0 {
                        ctx.violation(format!("C07|{}|{:?}|{:?}|destination pixel with alpha 0 has non-zero colour", alg_class(o.alg), pt, be), || det(json!({"at": [x, y, c], "colour": v})));
                        break 'z;
                    }
                }
            }
        }
    }
    // (4) the alpha channel is resampled as a plain channel
    let pt1 = PT::of(ck, 1).unwrap();
    let aplane = Raw::from_fn(pt1, levels[0].len() as u32, levels.len() as u32, |x, y, _| level_value(ck, levels[y as usize][x as usize]));
    let mut off = *o;
    off.alpha = false;
    let aout = resize_raw(&mut rz, &aplane, dw, dh, &off).expect("valid geometry");
    ctx.ops += 1;
    'a: for y in 0..dh {
        for x in 0..dw {
            let (a, b) = (outs[3].get(x, y, nc - 1), aout.get(x, y, 0));
            // floats: one ulp of the result plus the re-association noise of an f64 sum of terms of size <= alpha max
            let ok = if ck.is_int() { a == b } else { (a - b).abs() <= ulp32(a.abs().max(b.abs())) + amax(ck) * (0.5f64).powi(41) };
            if !ok {
                ctx.violation(format!("C07|{}|{:?}|{:?}|alpha channel differs from the plain one-channel resize", alg_class(o.alg), pt, be), || det(json!({"at": [x, y], "alpha_in_image": a, "alpha_alone": b})));
                break 'a;
            }
        }
    }
    ctx.traces += 1;
    ctx.outcome(fnv(outs[3].bytes()));
}

/// Opaque source: alpha handling on == alpha handling off.
fn check_opaque(ctx: &mut Ctx, pt: PT, be: BE, sw: u32, sh: u32, dw: u32, dh: u32, o: &Opts, seed: u64) {
    let ck = pt.ck();
    let nc = pt.ncomp();
    let levels = vec![vec![2u8; sw as usize]; sh as usize];
    let src = build(pt, &levels, 0, seed);
    let mut rz = new_resizer(be);
    let (mut on, mut off) = (*o, *o);
    on.alpha = true;
    off.alpha = false;
    let (a, b) = (resize_raw(&mut rz, &src, dw, dh, &on).unwrap(), resize_raw(&mut rz, &src, dw, dh, &off).unwrap());
    ctx.ops += 2;
    ctx.traces += 1;
    let n = (dw * dh) as usize * nc;
    if let Some(i) = (0..n).find(|&i| {
        let (x, y) = (get_comp(ck, a.bytes(), i), get_comp(ck, b.bytes(), i));
        if ck.is_int() {
            x != y
        } else {
            (x - y).abs() > 2.0 * ulp32(x.abs().max(y.abs()))
        }
    }) {
        ctx.violation(format!("C07|{}|{:?}|{:?}|opaque source: alpha handling changes the result", alg_class(o.alg), pt, be), || {
            json!({"src": [sw, sh], "dst": [dw, dh], "alg": format!("{:?}", o.alg), "crop": format!("{:?} {:?}", o.cx, o.cy), "component_index": i, "alpha_on": get_comp(ck, a.bytes(), i), "alpha_off": get_comp(ck, b.bytes(), i)})
        });
    }
}

pub fn prop(tier: Tier, seed: u64) -> Prop {
    let mut p = Prop::new("C07");
    let bes = backends();
    let nmax: u32 = tier.pick(6, 10);
    let n3: u32 = tier.pick(4, 6);

    // ---- 1-D: lines are alpha masks (all of them)
    let algs: Vec<Alg> = FILT.iter().flat_map(|f| [Alg::Conv(*f), Alg::Interp(*f)]).collect();
    let dims = vec![nmax as u64, nmax as u64, 6, algs.len() as u64];
    let (d1, a1, b1) = (dims.clone(), algs.clone(), bes.clone());
    p.spaces.push(Space::new("1-D: n_in x n_out x crop x filter x {Conv,Interp}; lines = ALL alpha masks over {0,max}^n_in (and {0,mid,max}^n_in for small n_in); 6 alpha types x back-ends x 2 orientations", product(&dims), move |idx, ctx| {
        let mut d = [0usize; 4];
        decode(idx, &d1, &mut d);
        let (n_in, n_out) = (d[0] as u32 + 1, d[1] as u32 + 1);
        let crops = crop1_small(n_in);
        if d[2] >= crops.len() {
            return;
        }
        let (crop, alg) = (crops[d[2]], a1[d[3]]);
        let mut masks = all_masks(n_in as usize, 2);
        if n_in <= n3 {
            masks.extend(all_masks(n_in as usize, 3));
        }
        ctx.sample(|| json!({"n_in": n_in, "n_out": n_out, "crop": [crop.start, crop.len], "alg": format!("{:?}", alg), "alpha_masks": masks.len(), "hidden_colour_variants": ["0", "max", "0x55..", "lcg"]}));
        if ctx.describe_only {
            return;
        }
        for (pi, pt) in ALPHA_PT.iter().copied().enumerate() {
            for (bi, &be) in b1.iter().enumerate() {
                // all back-ends for small n_in, rotating above (cost)
                if n_in > 6 && bi != (pi + idx as usize) % b1.len() {
                    continue;
                }
                // horizontal: rows are masks
                let mut o = Opts::new(alg);
                o.cx = Some(crop);
                check_map(ctx, pt, be, &masks, n_out, masks.len() as u32, &o, seed, "1-D horizontal");
                // vertical: columns are masks
                let t: Vec<Vec<u8>> = (0..n_in as usize).map(|y| masks.iter().map(|m| m[y]).collect()).collect();
                let mut o = Opts::new(alg);
                o.cy = Some(crop);
                check_map(ctx, pt, be, &t, masks.len() as u32, n_out, &o, seed, "1-D vertical");
                // opaque
                let mut o = Opts::new(alg);
                o.cx = Some(crop);
                check_opaque(ctx, pt, be, n_in, 3, n_out, 3, &o, seed);
                let mut o = Opts::new(alg);
                o.cy = Some(crop);
                check_opaque(ctx, pt, be, 3, n_in, 3, n_out, &o, seed);
                ctx.class(mix(mix(pt.idx() as u64, be as u64), mix((n_in % 8) as u64, (n_out % 8) as u64 * 16 + d[3] as u64)));
            }
        }
        ctx.nontrivial += masks.len() as u64;
    }).isolated());

    // ---- cropped down-scales: the crop leaves many source pixels on both sides, and the kernel
    //      (radius = support x scale) reaches beyond the crop box into them
    let big: Vec<(u32, u32, u32)> = vec![(12, 4, 4), (16, 5, 6), (24, 8, 8), (24, 7, 10), (33, 11, 11), (20, 3, 12)];
    let algs3: Vec<Alg> = vec![Alg::Conv(F::Bilinear), Alg::Conv(F::CatmullRom), Alg::Conv(F::Lanczos3), Alg::Conv(F::Gaussian), Alg::SS(F::Bilinear, 1), Alg::SS(F::Lanczos3, 2), Alg::Interp(F::Mitchell)];
    let dims3 = vec![big.len() as u64, 4, algs3.len() as u64];
    let (d3, a3, b3v) = (dims3.clone(), algs3.clone(), bes.clone());
    p.spaces.push(Space::new("cropped down-scales: crop boxes with wide margins on both sides x n_out 1..4 x 7 algorithms (structured alpha masks, both orientations and 2-D)", product(&dims3), move |idx, ctx| {
        let mut d = [0usize; 3];
        decode(idx, &d3, &mut d);
        let (n_in, start, len) = big[d[0]];
        let n_out = d[1] as u32 + 1;
        let alg = a3[d[2]];
        let crop = Crop1 { start: start as f64, len: len as f64 };
        ctx.sample(|| json!({"n_in": n_in, "crop": [start, len], "n_out": n_out, "alg": format!("{:?}", alg)}));
        if ctx.describe_only {
            return;
        }
        // structured masks over n_in positions
        let masks: Vec<Vec<u8>> = (0..24usize).map(|k| (0..n_in as usize).map(|i| match k % 6 { 0 => if (i + k / 6) % 2 == 0 { 0 } else { 2 }, 1 => if i == (k * 5) % n_in as usize { 0 } else { 2 }, 2 => if i < (k / 6 + 1) * 3 { 0 } else { 2 }, 3 => if i >= n_in as usize - (k / 6 + 1) * 3 { 0 } else { 2 }, 4 => [0u8, 1, 2][(i + k) % 3], _ => 2 }).collect()).collect();
        for (pi, pt) in ALPHA_PT.iter().copied().enumerate() {
            let be = b3v[(pi + idx as usize) % b3v.len()];
            // horizontal: rows are masks
            let mut o = Opts::new(alg);
            o.cx = Some(crop);
            check_map(ctx, pt, be, &masks, n_out, masks.len() as u32, &o, seed, "cropped 1-D horizontal");
            check_opaque(ctx, pt, be, n_in, 3, n_out, 3, &o, seed);
            // vertical: columns are masks
            let t: Vec<Vec<u8>> = (0..n_in as usize).map(|y| masks.iter().map(|m| m[y]).collect()).collect();
            let mut o = Opts::new(alg);
            o.cy = Some(crop);
            check_map(ctx, pt, be, &t, masks.len() as u32, n_out, &o, seed, "cropped 1-D vertical");
            check_opaque(ctx, pt, be, 3, n_in, 3, n_out, &o, seed);
            // 2-D: both axes cropped and scaled
            let mut o = Opts::new(alg);
            o.cx = Some(Crop1 { start: 1.0, len: 6.0 });
            o.cy = Some(crop);
            let lv: Vec<Vec<u8>> = (0..n_in as usize).map(|y| (0..8usize).map(|x| masks[(x + y) % masks.len()][y]).collect()).collect();
            check_map(ctx, pt, be, &lv, 3, n_out, &o, seed, "cropped 2-D");
            check_opaque(ctx, pt, be, 8, n_in, 3, n_out, &o, seed);
            ctx.class(mix(mix(pt.idx() as u64 + 80, be as u64), mix(d[0] as u64, d[1] as u64 * 8 + d[2] as u64)));
        }
        ctx.nontrivial += masks.len() as u64;
    }).isolated());

    // ---- 2-D incl. SuperSampling
    let m: u32 = tier.pick(3, 4);
    let mut algs2: Vec<Alg> = vec![];
    for f in [F::Box, F::Bilinear, F::CatmullRom, F::Lanczos3, F::Gaussian] {
        algs2.extend([Alg::Conv(f), Alg::Interp(f), Alg::SS(f, 1), Alg::SS(f, 2)]);
    }
    let mut shapes: Vec<(u32, u32, u32, u32)> = vec![];
    for a in 1..=m {
        for b in 1..=m {
            for c in 1..=m {
                for e in 1..=m {
                    shapes.push((a, b, c, e));
                }
            }
        }
    }
    shapes.extend([(8, 8, 4, 4), (9, 7, 2, 3), (6, 5, 2, 2), (16, 5, 3, 2), (5, 4, 9, 7)]);
    let dims2 = vec![shapes.len() as u64, algs2.len() as u64, 2];
    let (d2, s2, a2, b2) = (dims2.clone(), shapes.clone(), algs2.clone(), bes.clone());
    p.spaces.push(Space::new("2-D: shapes x 20 algorithms incl. SuperSampling x crop; all alpha masks for <= 8 source pixels, 48 structured masks above", product(&dims2), move |idx, ctx| {
        let mut d = [0usize; 3];
        decode(idx, &d2, &mut d);
        let (sw, sh, dw, dh) = s2[d[0]];
        let alg = a2[d[1]];
        let (cx, cy) = if d[2] == 0 { (None, None) } else { (Some(Crop1 { start: 0.25, len: sw as f64 - 0.5 }), Some(Crop1 { start: 0.0, len: sh as f64 - 0.5 })) };
        let npx = (sw * sh) as usize;
        let masks: Vec<Vec<u8>> = if npx <= 8 {
            all_masks(npx, 2)
        } else {
            let mut v = vec![];
            for k in 0..48usize {
                v.push((0..npx).map(|i| { let (x, y) = (i % sw as usize, i / sw as usize); match k % 6 { 0 => if (x + y + k / 6) % 2 == 0 { 0 } else { 2 }, 1 => if x == (k / 6) % sw as usize { 0 } else { 2 }, 2 => if y == (k / 6) % sh as usize { 0 } else { 2 }, 3 => if i == (k * 7) % npx { 2 } else { 0 }, 4 => if (x / 2 + y / 2 + k / 6) % 2 == 0 { 0 } else { 1 }, _ => [0u8, 1, 2, 0, 2][(i * 3 + k) % 5] } }).collect());
            }
            v
        };
        ctx.sample(|| json!({"src": [sw, sh], "dst": [dw, dh], "alg": format!("{:?}", alg), "crop": d[2] == 1, "alpha_masks": masks.len()}));
        if ctx.describe_only {
            return;
        }
        let mut o = Opts::new(alg);
        o.cx = cx;
        o.cy = cy;
        for (pi, pt) in ALPHA_PT.iter().copied().enumerate() {
            let be = b2[(pi + idx as usize) % b2.len()];
            for mk in masks.iter() {
                let levels: Vec<Vec<u8>> = (0..sh as usize).map(|y| mk[y * sw as usize..(y + 1) * sw as usize].to_vec()).collect();
                check_map(ctx, pt, be, &levels, dw, dh, &o, seed, "2-D");
            }
            check_opaque(ctx, pt, be, sw, sh, dw, dh, &o, seed);
            ctx.class(mix(mix(pt.idx() as u64 + 40, be as u64), mix(d[1] as u64, d[0] as u64 % 32)));
        }
        ctx.nontrivial += masks.len() as u64;
    }).isolated());

    p.rule = "1-D: every (n_in,n_out) up to N x crop sub-alphabet x 14 algorithms x 6 alpha pixel types x back-ends x both orientations, with EVERY alpha mask over {0,max}^n_in (and {0,mid,max}^n_in for n_in <= N3) as the lines of one image and 4 colour assignments under the transparent pixels (0, max, 0x55.., lcg); 2-D: shapes x 20 algorithms incl. SuperSampling x crop with all masks (<= 8 pixels) or 48 structured masks. Oracles: the four variants give identical results; alpha 0 in the destination implies colour 0; the alpha channel equals the one-channel resize of the alpha plane; an opaque source gives the use_alpha(false) result".into();
    p.bounds = json!({"N": nmax, "N3": n3, "M": m});
    p.assumptions = vec!["floats compared by value (the sign of zero is not compared); alpha-plane and opaque comparisons allow 1-2 f32 ulps for float types".into()];
    p
}
