//! C11 — nearest-neighbour resizing picks the source pixel under each destination centre.
use crate::alg::*;
use crate::containers::*;
use crate::explore::*;
use crate::ideal::nearest_candidates;
use crate::props::c05::run_one;
use crate::px::*;
use crate::{Prop, Tier};
use serde_json::json;

/// Tag image: every pixel's bytes are unique within the image (also under non-premultiplied
/// alpha interpretations: nothing here is a valid premultiplied colour by construction).
pub fn tag_image(pt: PT, w: u32, h: u32) -> Raw {
    let ps = pt.psize();
    let mut r = Raw::new(pt, w, h);
    for y in 0..h {
        for x in 0..w {
            let o = (y as usize * w as usize + x as usize) * ps;
            let id = y * w + x;
            let b = &mut r.bytes_mut()[o..o + ps];
            if ps == 1 {
                b[0] = id as u8;
            } else {
                // bytes: x, y then a hash; for floats keep the exponent bytes tame
                for (i, v) in b.iter_mut().enumerate() {
                    *v = match i {
                        0 => x as u8,
                        1 => y as u8,
                        _ => (id.wrapping_mul(2654435761) >> (8 * (i % 4))) as u8 & 0x3f,
                    };
                }
            }
        }
    }
    r
}

#[allow(clippy::too_many_arguments)]
fn check(ctx: &mut Ctx, pts: &[PT], sw: u32, sh: u32, dw: u32, dh: u32, cx: Crop1, cy: Crop1, be: BE) {
    let xs: Vec<Vec<u32>> = (0..dw).map(|j| nearest_candidates(sw, cx, dw, j)).collect();
    let ys: Vec<Vec<u32>> = (0..dh).map(|j| nearest_candidates(sh, cy, dh, j)).collect();
    let amb = xs.iter().chain(ys.iter()).any(|c| c.len() > 1);
    if amb {
        ctx.note("cases where a coordinate is within fp noise of an integer (either neighbour accepted)", 1);
    }
    let mut o = Opts::new(Alg::Nearest);
    o.cx = Some(cx);
    o.cy = Some(cy);
    for (pi, &pt) in pts.iter().enumerate() {
        o.alpha = pt.has_alpha(); // alpha handling requested: Nearest must still not touch the values
        let src = tag_image(pt, sw, sh);
        let fo = o.to_fir(sw, sh);
        let mut combos: Vec<(bool, SrcK, DstK)> = vec![(false, SrcK::RefNew, DstK::ImgSlice), (false, SrcK::CropOfRef, DstK::ImgSliceSpare), (false, SrcK::CropMutAsSrc, DstK::ImgSlice)];
        if TYPED_PTS.contains(&pt) {
            combos.push((true, SrcK::TRef, DstK::TSlice));
            combos.push((true, SrcK::TCropNew, DstK::TSlice));
        }
        for (ci, (typed, sk, dk)) in combos.into_iter().enumerate() {
            let mut rz = new_resizer(be);
            if ci % 2 == 0 {
                // start from a non-initial state: the same Resizer has just cut an equally sized tile
                // one pixel further right/down (or left/up) out of the same image
                let shift = |c: Crop1, n: u32| if c.start + 1.0 + c.len <= n as f64 { Some(Crop1 { start: c.start + 1.0, len: c.len }) } else if c.start >= 1.0 { Some(Crop1 { start: c.start - 1.0, len: c.len }) } else { None };
                let (wx, wy) = (shift(cx, sw), shift(cy, sh));
                if wx.is_some() || wy.is_some() {
                    let mut ow = o;
                    ow.cx = Some(wx.unwrap_or(cx));
                    ow.cy = Some(wy.unwrap_or(cy));
                    let mut warm = Raw::filled(pt, dw, dh, 0xA5);
                    let _ = resize_into(&mut rz, &src, &mut warm, &ow);
                    ctx.ops += 1;
                    ctx.note("cases preceded by a warm-up call with a shifted crop box of the same size on the same Resizer", 1);
                }
            }
            let mut op = OpSpec::Resize(&mut rz, fo);
            let (out, _) = run_one(&mut op, typed, sk, dk, &src, pt, dw, dh, Place { l: 1, t: 2, mr: 0, mb: 0 }, Place::NONE, 3, Mem::FencedEnd, 0x5A);
            ctx.ops += 1;
            let det = |extra: serde_json::Value| {
                json!({"src": [sw, sh], "dst": [dw, dh], "crop": [cx.start, cy.start, cx.len, cy.len], "pixel": format!("{:?}", pt), "src_kind": format!("{:?}", sk), "dst_kind": format!("{:?}", dk), "typed_entry": typed, "more": extra})
            };
            if let Err(e) = &out.result {
                ctx.violation("C11|valid crop rejected", || det(json!({"err": e})));
                continue;
            }
            if out.dirty > 0 {
                ctx.violation("C11|wrote outside the destination", || det(json!({"dirty": out.dirty})));
            }
            let ps = pt.psize();
            let mut bad: Option<(u32, u32)> = None;
            'o: for y in 0..dh {
                for x in 0..dw {
                    let got = out.rect.pixel_bytes(x, y);
                    let mut ok = false;
                    for &sy in ys[y as usize].iter() {
                        for &sx in xs[x as usize].iter() {
                            if got == src.pixel_bytes(sx, sy) {
                                ok = true;
                            }
                        }
                    }
                    if !ok {
                        bad = Some((x, y));
                        break 'o;
                    }
                }
            }
            ctx.traces += (dw * dh) as u64;
            if let Some((x, y)) = bad {
                let got = out.rect.pixel_bytes(x, y).to_vec();
                // where does that pixel come from?
                let mut from = None;
                for sy in 0..sh {
                    for sx in 0..sw {
                        if src.pixel_bytes(sx, sy) == &got[..] {
                            from = Some((sx, sy));
                        }
                    }
                }
                let class = if got.iter().all(|b| *b == 0x5A) { "destination pixel not written" } else if from.is_some() { "wrong source pixel" } else { "pixel value is not a copy of any source pixel" };
                ctx.violation(format!("C11|{}|{:?}", class, sk), || det(json!({"at": [x, y], "got_bytes": got, "copied_from": format!("{:?}", from), "expected_x": xs[x as usize], "expected_y": ys[y as usize], "psize": ps})));
            }
            ctx.class(mix(mix(pt.idx() as u64, pi as u64), mix(sk as u64 * 16 + dk as u64, mix((sw % 4) as u64 * 4 + (dw % 4) as u64, amb as u64))));
            ctx.outcome(fnv(out.rect.bytes()));
        }
    }
}

pub fn prop(tier: Tier, _seed: u64) -> Prop {
    let mut p = Prop::new("C11");
    let bes = backends();
    let (smax, dmax, full): (u32, u32, u32) = tier.pick((7, 10, 4), (16, 20, 5));

    // ---- one axis varying at a time, full CROP1 x CROP1
    let dims = vec![smax as u64, smax as u64, 2 * dmax as u64, 17, 17];
    let (d1, b1) = (dims.clone(), bes.clone());
    p.spaces.push(
        Space::new("(w_in,h_in) x one destination axis varying x CROP1 x CROP1 (x pixel types x source containers inside; fenced)", product(&dims), move |idx, ctx| {
            let mut d = [0usize; 5];
            decode(idx, &d1, &mut d);
            let (sw, sh) = (d[0] as u32 + 1, d[1] as u32 + 1);
            let (dw, dh) = if d[2] < dmax as usize { (d[2] as u32 + 1, sh.min(3).max(1) + 1) } else { (sw.min(3) + 1, (d[2] - dmax as usize) as u32 + 1) };
            let (cxs, cys) = (crop1_alphabet(sw), crop1_alphabet(sh));
            if d[3] >= cxs.len() || d[4] >= cys.len() {
                return;
            }
            let (cx, cy) = (cxs[d[3]], cys[d[4]]);
            ctx.sample(|| json!({"src": [sw, sh], "dst": [dw, dh], "crop": [cx.start, cy.start, cx.len, cy.len]}));
            if ctx.describe_only {
                return;
            }
            // pixel types rotate with the case so that every type meets every geometry class
            let k = idx as usize;
            let pts = [ALL_PT[k % 13], TYPED_PTS[k % 6], ALL_PT[(k / 13 + 5) % 13]];
            check(ctx, &pts, sw, sh, dw, dh, cx, cy, b1[k % b1.len()]);
            ctx.nontrivial += 1;
        })
        .isolated(),
    );

    // ---- full 2-D product for small sizes, all pixel types
    let dims2 = vec![full as u64, full as u64, full as u64, full as u64, 17, 17];
    let (d2, b2) = (dims2.clone(), bes.clone());
    p.spaces.push(
        Space::new("full product (w_in,h_in,w_out,h_out) for small sizes x CROP1 x CROP1 x all 13 pixel types", product(&dims2), move |idx, ctx| {
            let mut d = [0usize; 6];
            decode(idx, &d2, &mut d);
            let (sw, sh, dw, dh) = (d[0] as u32 + 1, d[1] as u32 + 1, d[2] as u32 + 1, d[3] as u32 + 1);
            let (cxs, cys) = (crop1_alphabet(sw), crop1_alphabet(sh));
            if d[4] >= cxs.len() || d[5] >= cys.len() {
                return;
            }
            let (cx, cy) = (cxs[d[4]], cys[d[5]]);
            ctx.sample(|| json!({"src": [sw, sh], "dst": [dw, dh], "crop": [cx.start, cy.start, cx.len, cy.len], "pixel_types": "all 13"}));
            if ctx.describe_only {
                return;
            }
            check(ctx, &ALL_PT, sw, sh, dw, dh, cx, cy, b2[idx as usize % b2.len()]);
            ctx.nontrivial += 1;
        })
        .isolated(),
    );

    // ---- huge ratios
    let huge: Vec<(u32, u32, u32, u32)> = vec![(1, 1, 4097, 1), (4097, 1, 1, 1), (65537, 1, 3, 1), (1, 65537, 1, 3), (3, 2, 300, 7), (255, 3, 2, 256), (1, 4097, 2, 1),
        // many destination lines with coprime sizes: an accumulated or fixed-point source position drifts
        // by up to (lines x step error); after a few hundred lines it crosses a pixel boundary
        (2, 1001, 2, 300), (1001, 2, 300, 2), (3, 997, 2, 512), (1, 4099, 1, 1000), (1, 300, 1, 1001), (1000, 1, 999, 1), (2, 65521, 1, 4093)];
    let dims3 = vec![huge.len() as u64, 6];
    let (d3, h3, b3) = (dims3.clone(), huge.clone(), bes.clone());
    p.spaces.push(
        Space::new("huge ratios x crop sub-alphabet", product(&dims3), move |idx, ctx| {
            let mut d = [0usize; 2];
            decode(idx, &d3, &mut d);
            let (sw, sh, dw, dh) = h3[d[0]];
            let (cxs, cys) = (crop1_small(sw), crop1_small(sh));
            let (cx, cy) = (cxs[d[1] % cxs.len()], cys[(d[1] + 1) % cys.len()]);
            ctx.sample(|| json!({"src": [sw, sh], "dst": [dw, dh], "crop": [cx.start, cy.start, cx.len, cy.len]}));
            if ctx.describe_only {
                return;
            }
            check(ctx, &[PT::U8x2, PT::U16x3, PT::F32, PT::U8x4], sw, sh, dw, dh, cx, cy, b3[idx as usize % b3.len()]);
            ctx.nontrivial += 1;
        })
        .isolated(),
    );

    p.rule = "source sizes (1..S)^2 x one destination axis varying over 1..D (the other fixed) x the full CROP1 x CROP1 alphabet (integer, fractional, sub-pixel, flush-left and flush-right boxes down to a width of n*2^-52) with rotating pixel types; the full (w_in,h_in,w_out,h_out) product up to F^4 x CROP1^2 x all 13 pixel types; huge ratios (1<->4097, 65537->3) and long coprime pairs (1001->300, 997->512, 4099->1000, 300->1001, 1000->999, 65521->4093) on both axes. Source containers: ImageRef, CroppedImage and CroppedImageMut in the source role (dynamic entry), TypedImageRef (specialised row stepping) and TypedCroppedImage (generic row stepping) through the typed entry; all buffers end at a guard page and each case runs in an isolated child; every other container run is preceded, on the same Resizer, by a Nearest call with the crop box shifted by one pixel (same size). Oracle: every destination pixel is byte-identical to the source pixel at floor(left+(x+1/2)*cw/dw), floor(top+(y+1/2)*ch/dh); either neighbour when the coordinate is within (n_out+4)*2^-51*extent of an integer".into();
    p.bounds = json!({"S": smax, "D": dmax, "F": full});
    p.assumptions = vec!["tags are unique byte patterns per pixel (for U8 at most 256 pixels), so a wrong source pixel is always visible".into()];
    p
}
