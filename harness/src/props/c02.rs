//! C02 — SIMD back-ends compute the same image as the portable back-end; and (E2 conformance)
//! the portable integer kernels reproduce the fixed-point coefficient model bit for bit.
use crate::alg::*;
use crate::coef;
use crate::conv::*;
use crate::explore::*;
use crate::props::c01::alg_class;
use crate::props::c06::{run_op, Entry, Op};
use crate::px::*;
use crate::{Prop, Tier};
use fast_image_resize::verif::CoefficientsDump;
use serde_json::json;

fn ulp32(x: f64) -> f64 {
    let a = (x.abs() as f32).max(f32::MIN_POSITIVE);
    (f32::from_bits(a.to_bits() + 1) - a) as f64
}

/// Compare a back-end result with the portable result. `slack_units` = allowed integer difference.
fn compare(none: &Raw, other: &Raw, slack_units: f64, float_scale: f64, two_pass: bool) -> Option<(usize, f64, f64)> {
    let ck = none.pt.ck();
    if ck.is_int() && slack_units == 0.0 {
        if none.bytes() == other.bytes() {
            return None;
        }
    }
    let ncomp = none.w as usize * none.h as usize * none.pt.ncomp();
    for i in 0..ncomp {
        let a = get_comp(ck, none.bytes(), i);
        let b = get_comp(ck, other.bytes(), i);
        let ok = if ck.is_int() {
            (a - b).abs() <= slack_units
        } else if a.is_nan() || b.is_nan() {
            a.is_nan() && b.is_nan()
        } else if a.is_infinite() || b.is_infinite() {
            a == b
        } else {
            let m = a.abs().max(b.abs());
            let tol = if two_pass { 8.0 * ulp32(m.max(float_scale)) } else { ulp32(m) + float_scale * (0.5f64).powi(41) };
            (a - b).abs() <= tol
        };
        if !ok {
            return Some((i, a, b));
        }
    }
    None
}

/// Content rows derived from the implementation's own f64 weights (sign-adversarial rows).
fn rows_from_dump(ck: CK, n_in: usize, d: &CoefficientsDump, lcg_rows: usize, seed: u64) -> Vec<Vec<f64>> {
    let (hi, lo) = hi_lo(ck);
    let mut rows = content_rows(ck, n_in, None, lcg_rows, seed);
    for j in 0..d.bounds.len() {
        let (start, w) = coef::weights(d, j);
        let mut plus = vec![lo; n_in];
        let mut minus = vec![lo; n_in];
        for (i, &wt) in w.iter().enumerate() {
            if start + i < n_in {
                if wt > 0.0 {
                    plus[start + i] = hi;
                } else if wt < 0.0 {
                    minus[start + i] = hi;
                }
            }
        }
        rows.push(plus);
        rows.push(minus);
    }
    rows
}

/// 1-D case: model conformance of the portable kernels + SIMD equality, both orientations.
#[allow(clippy::too_many_arguments)]
pub fn check_1d_eq(ctx: &mut Ctx, n_in: u32, crop: Crop1, n_out: u32, alg: Alg, pts: &[PT], bes: &[BE], lcg_rows: usize, seed: u64, extra_lines: Option<usize>) {
    let f = alg.filter().unwrap();
    let adaptive = adaptive_of(alg);
    if axis_is_identity(crop, n_out) {
        return;
    }
    let d = dump_for(n_in, crop, n_out, f, adaptive);
    if d.bounds.is_empty() {
        return;
    }
    let headroom = (0..d.bounds.len()).all(|j| coef::sum_abs(&d, j) < 3.999);
    if !headroom {
        // outside the documented head-room (only custom kernels get here): C02 does not apply
        ctx.note("custom-kernel geometries skipped: a normalised window has sum|w| >= 4", 1);
        return;
    }
    ctx.note(&format!("u8 precision {}", d.precision16), 1);
    ctx.note(&format!("u16 precision {}", d.precision32), 1);
    for ck in [CK::U8, CK::U16, CK::I32, CK::F32] {
        let these: Vec<PT> = pts.iter().copied().filter(|p| p.ck() == ck).collect();
        if these.is_empty() {
            continue;
        }
        let mut rows = rows_from_dump(ck, n_in as usize, &d, lcg_rows, seed);
        if let Some(n) = extra_lines {
            rows.truncate(0);
            let mut l = Lcg::new(seed ^ 0xABCD ^ n as u64);
            for k in 0..n {
                rows.push((0..n_in).map(|i| if k % 3 == 2 { if (i + k as u32) % 2 == 0 { hi_lo(ck).0 } else { hi_lo(ck).1 } } else { l.comp(ck) }).collect());
            }
        }
        let h = rows.len();
        let maxsrc = rows.iter().flat_map(|r| r.iter()).fold(0.0f64, |m, v| m.max(v.abs()));
        for &pt in these.iter() {
            let nc = pt.ncomp();
            for orient in [Orient::Horiz, Orient::Vert] {
                let src = build_1d(pt, &rows, orient);
                let mut rz = new_resizer(BE::None);
                let base = run_1d(&mut rz, &src, orient, crop, n_out, alg, false);
                ctx.ops += 1;
                // E2 conformance: portable kernel == clip((2^(p-1) + Σ k x) >> p)
                if matches!(ck, CK::U8 | CK::U16) {
                    let mut bad: Option<(usize, usize, usize, f64, i64)> = None;
                    'outer: for line in 0..h {
                        for c in 0..nc {
                            let r = &rows[(line + 7 * c) % h];
                            for j in 0..n_out as usize {
                                let want = if ck == CK::U8 { coef::predict_u8(&d, j, |i| r[i] as i64) } else { coef::predict_u16(&d, j, |i| r[i] as i64) };
                                let got = get_1d(&base, orient, line, j, c);
                                if got as i64 != want {
                                    bad = Some((line, j, c, got, want));
                                    break 'outer;
                                }
                            }
                        }
                    }
                    ctx.traces += (h * nc * n_out as usize) as u64;
                    if let Some((line, j, c, got, want)) = bad {
                        ctx.violation(format!("C02|model|portable {:?} kernel differs from the fixed-point model|{:?}", orient, pt), || {
                            json!({"n_in": n_in, "crop": [crop.start, crop.len], "n_out": n_out, "alg": format!("{:?}", alg), "pixel": format!("{:?}", pt), "line": line, "sample": j, "channel": c,
                                   "got": got, "model": want, "content_row": rows[(line + 7 * c) % h], "precision": if ck == CK::U8 { d.precision16 } else { d.precision32 }})
                        });
                    }
                }
                for &be in bes.iter() {
                    if be == BE::None || ck == CK::I32 {
                        continue;
                    }
                    let mut rzb = new_resizer(be);
                    let out = run_1d(&mut rzb, &src, orient, crop, n_out, alg, false);
                    ctx.ops += 1;
                    if let Some((i, a, b)) = compare(&base, &out, 0.0, maxsrc, false) {
                        ctx.violation(format!("C02|1-D {:?}|{:?}|{:?}|differs from portable", orient, pt, be), || {
                            let px = i / nc;
                            let (x, y) = (px % out.w as usize, px / out.w as usize);
                            json!({"n_in": n_in, "crop": [crop.start, crop.len], "n_out": n_out, "alg": format!("{:?}", alg), "pixel": format!("{:?}", pt), "backend": format!("{:?}", be),
                                   "lines": h, "at_xy": [x, y], "channel": i % nc, "portable": a, "simd": b,
                                   "u8_precision": d.precision16, "kernel_len": d.bounds.iter().map(|b| b.1).max()})
                        });
                    }
                    let kl = d.bounds.iter().map(|b| b.1).max().unwrap_or(0);
                    ctx.class(mix(mix(pt.idx() as u64, be as u64), mix((kl % 16) as u64 + 16 * (orient == Orient::Vert) as u64, mix(d.precision16 as u64, mix((h % 4) as u64, ((n_out % 8) as u64) << 8 | ((src.w as u64 * pt.psize() as u64) % 32))))));
                }
                ctx.outcome(fnv(base.bytes()));
            }
        }
    }
}

#[allow(clippy::too_many_arguments)]
fn check_2d_eq(ctx: &mut Ctx, sw: u32, sh: u32, dw: u32, dh: u32, cx: Crop1, cy: Crop1, alg: Alg, alpha: bool, pts: &[PT], bes: &[BE], seed: u64) {
    if let Some(F::Custom(_)) = alg.filter() {
        let (iw, ih, ccx, ccy, _) = crate::props::c01::conv_step_geometry(sw, sh, dw, dh, cx, cy, alg);
        let f = alg.filter().unwrap();
        let ad = adaptive_of(alg);
        if !(crate::props::c01::within_headroom(iw, ccx, dw, f, ad) && crate::props::c01::within_headroom(ih, ccy, dh, f, ad)) {
            ctx.note("custom-kernel geometries skipped: a normalised window has sum|w| >= 4", 1);
            return;
        }
    }
    for &pt in pts {
        let ck = pt.ck();
        if alpha && !pt.has_alpha() {
            continue;
        }
        if alpha && ck == CK::F32 && matches!(alg.filter(), Some(F::Custom(_))) {
            // sharpening kernels can drive the resampled alpha to ~0 even for alpha in [0.5,1]:
            // the division is then ill-conditioned; not a back-end question
            continue;
        }
        let (hi, lo) = hi_lo(ck);
        for kind in 0..3 {
            let mut l = Lcg::new(seed ^ ((sw as u64) << 24) ^ ((sh as u64) << 16) ^ kind);
            // float alpha stays in [0.5,1] when alpha handling is on: with a resampled alpha near 0
            // the final division amplifies re-association noise without bound (ill-conditioned, not
            // a back-end difference)
            let fa = alpha && ck == CK::F32;
            let is_a = |c: usize| c == pt.ncomp() - 1 && pt.has_alpha();
            let src = match kind {
                0 => Raw::from_fn(pt, sw, sh, |x, y, c| if fa && is_a(c) { if (x + y) % 2 == 0 { 1.0 } else { 0.5 } } else if (x + y + c as u32) % 2 == 0 { hi } else { lo }),
                1 => Raw::from_fn(pt, sw, sh, |x, y, c| if is_a(c) { if fa { [0.5, 1.0, 0.75, 1.0][((x + 2 * y) % 4) as usize] } else { [0.0, hi, (hi / 3.0).floor(), 1.0][((x + 2 * y) % 4) as usize] } } else { l.comp(ck) }),
                _ => Raw::from_fn(pt, sw, sh, |_, _, c| if fa && is_a(c) { 0.5 + l.comp(ck) / 2.0 } else { l.comp(ck) }),
            };
            let maxsrc = (0..src.bytes().len() / ck.size()).map(|i| get_comp(ck, src.bytes(), i).abs()).fold(0.0, f64::max);
            let mut o = Opts::new(alg);
            o.cx = Some(cx);
            o.cy = Some(cy);
            o.alpha = alpha;
            let mut rz = new_resizer(BE::None);
            let base = match resize_raw(&mut rz, &src, dw, dh, &o) {
                Ok(b) => b,
                Err(_) => return,
            };
            ctx.ops += 1;
            for &be in bes {
                if be == BE::None || ck == CK::I32 {
                    continue;
                }
                let mut rzb = new_resizer(be);
                let out = resize_raw(&mut rzb, &src, dw, dh, &o).unwrap();
                ctx.ops += 1;
                let slack = if alpha && ck == CK::U16 { 1.0 } else { 0.0 };
                if let Some((i, a, b)) = compare(&base, &out, slack, maxsrc, true) {
                    ctx.violation(format!("C02|2-D|{}|alpha={}|{:?}|{:?}|differs from portable", alg_class(alg), alpha, pt, be), || {
                        let nc = pt.ncomp();
                        let px = i / nc;
                        json!({"src": [sw, sh], "dst": [dw, dh], "crop": [cx.start, cy.start, cx.len, cy.len], "alg": format!("{:?}", alg), "alpha": alpha, "pixel": format!("{:?}", pt), "backend": format!("{:?}", be),
                               "content": kind, "at_xy": [px % dw as usize, px / dw as usize], "channel": i % nc, "portable": a, "simd": b, "source_bytes": src.bytes().iter().take(96).collect::<Vec<_>>()})
                    });
                }
                ctx.class(mix(mix(pt.idx() as u64 + 900, be as u64), mix(alpha as u64, mix((sw % 8) as u64, (dw % 8) as u64 * 8 + (dh % 4) as u64))));
            }
            ctx.outcome(fnv(base.bytes()));
        }
    }
}

pub fn filters_with_sharp() -> Vec<F> {
    let mut v = FILT.to_vec();
    v.extend([F::Custom(0), F::Custom(1), F::Custom(2), F::Custom(3)]);
    v
}

pub fn prop(tier: Tier, seed: u64) -> Prop {
    let mut p = Prop::new("C02");
    let bes = backends();
    let (nin_max, nout_max): (u32, u32) = tier.pick((34, 12), (70, 24));
    let fl = filters_with_sharp();

    // ---- (1) 1-D geometry sweep
    let algs: Vec<Alg> = fl.iter().flat_map(|f| [Alg::Conv(*f), Alg::Interp(*f)]).collect();
    let dims = vec![nin_max as u64, nout_max as u64, 6, algs.len() as u64];
    let (d1, a1, b1) = (dims.clone(), algs.clone(), bes.clone());
    p.spaces.push(Space::new("1-D: n_in x n_out x crop x (7 filters + 4 custom) x {Conv,Interp}: model conformance + SIMD == portable (13 types, 2 orientations)", product(&dims), move |idx, ctx| {
        let mut d = [0usize; 4];
        decode(idx, &d1, &mut d);
        let (n_in, n_out) = (d[0] as u32 + 1, d[1] as u32 + 1);
        let crops = crop1_small(n_in);
        if d[2] >= crops.len() {
            return;
        }
        let (crop, alg) = (crops[d[2]], a1[d[3]]);
        ctx.sample(|| json!({"n_in": n_in, "n_out": n_out, "crop": [crop.start, crop.len], "alg": format!("{:?}", alg), "types": "all 13", "backends": format!("{:?}", b1)}));
        if ctx.describe_only {
            return;
        }
        check_1d_eq(ctx, n_in, crop, n_out, alg, &ALL_PT, &b1, 1, seed, None);
        ctx.nontrivial += 1;
    }).isolated());

    // ---- (2) number of lines 1..9 (4-row groups and 1-3 trailing rows), widths 1..W (row-byte residues)
    let nins: Vec<u32> = vec![3, 5, 13, 17, 33, 70];
    let lines_max: u64 = tier.pick(9, 13);
    let f2 = [F::Box, F::Bilinear, F::Lanczos3, F::Custom(2)];
    let dims2 = vec![nins.len() as u64, 12, lines_max, 4];
    let (d2, b2, ni) = (dims2.clone(), bes.clone(), nins.clone());
    p.spaces.push(Space::new("1-D: line counts 1..9 x n_in x n_out 1..12 x 4 filters (row groups / trailing rows / x-chunking)", product(&dims2), move |idx, ctx| {
        let mut d = [0usize; 4];
        decode(idx, &d2, &mut d);
        let (n_in, n_out, lines, f) = (ni[d[0]], d[1] as u32 + 1, d[2] + 1, f2[d[3]]);
        ctx.sample(|| json!({"n_in": n_in, "n_out": n_out, "lines": lines, "alg": format!("Conv({:?})", f)}));
        if ctx.describe_only {
            return;
        }
        check_1d_eq(ctx, n_in, Crop1 { start: 0.0, len: n_in as f64 }, n_out, Alg::Conv(f), &ALL_PT, &b2, 0, seed, Some(lines));
        ctx.nontrivial += 1;
    }).isolated());
    let wmax: u64 = tier.pick(40, 70);
    let dims3 = vec![wmax, 3, 3, 3];
    let (d3, b3) = (dims3.clone(), bes.clone());
    p.spaces.push(Space::new("1-D: line counts 1..W (every residue of row bytes mod 32 in the vertical kernels)", product(&dims3), move |idx, ctx| {
        let mut d = [0usize; 4];
        decode(idx, &d3, &mut d);
        let (lines, n_in, n_out, f) = (d[0] + 1, [3u32, 8, 20][d[1]], [1u32, 2, 5][d[2]], [F::Bilinear, F::CatmullRom, F::Lanczos3][d[3]]);
        ctx.sample(|| json!({"lines": lines, "n_in": n_in, "n_out": n_out, "alg": format!("Conv({:?})", f)}));
        if ctx.describe_only {
            return;
        }
        check_1d_eq(ctx, n_in, Crop1 { start: 0.25, len: n_in as f64 - 0.5 }, n_out, Alg::Conv(f), &ALL_PT, &b3, 0, seed, Some(lines));
        ctx.nontrivial += 1;
    }).isolated());

    // ---- (3) long kernels (precisions 17..21)
    let long: Vec<(u32, u32)> = tier.pick(vec![(64, 1), (128, 3), (255, 2), (1000, 3)], vec![(64, 1), (100, 3), (128, 3), (255, 2), (256, 7), (1000, 3), (4097, 2)]);
    let dims4 = vec![long.len() as u64, fl.len() as u64];
    let (d4, b4, lg, fl4) = (dims4.clone(), bes.clone(), long.clone(), fl.clone());
    p.spaces.push(Space::new("1-D: long kernels", product(&dims4), move |idx, ctx| {
        let mut d = [0usize; 2];
        decode(idx, &d4, &mut d);
        let ((n_in, n_out), f) = (lg[d[0]], fl4[d[1]]);
        ctx.sample(|| json!({"n_in": n_in, "n_out": n_out, "alg": format!("Conv({:?})", f)}));
        if ctx.describe_only {
            return;
        }
        check_1d_eq(ctx, n_in, Crop1 { start: 0.0, len: n_in as f64 }, n_out, Alg::Conv(f), &ALL_PT, &b4, 2, seed, Some(6));
        ctx.nontrivial += 1;
    }).isolated());

    // ---- (4) 2-D incl. alpha on/off and SuperSampling
    let m: u32 = tier.pick(4, 6);
    let mut algs2: Vec<Alg> = vec![];
    for f in fl.iter() {
        algs2.push(Alg::Conv(*f));
        algs2.push(Alg::Interp(*f));
        algs2.push(Alg::SS(*f, 2));
    }
    algs2.push(Alg::SS(F::Lanczos3, 1));
    algs2.push(Alg::SS(F::Box, 3));
    let mut shapes: Vec<(u32, u32, u32, u32)> = vec![];
    for a in 1..=m {
        for b in 1..=m {
            for c in 1..=m {
                for e in 1..=m {
                    shapes.push((a, b, c, e));
                }
            }
        }
    }
    shapes.extend([(8, 8, 4, 4), (9, 7, 2, 3), (16, 5, 3, 2), (33, 9, 7, 5), (17, 31, 5, 9), (40, 3, 13, 2), (5, 40, 4, 13), (64, 64, 9, 9), (12, 10, 33, 31)]);
    let dims5 = vec![shapes.len() as u64, 4, algs2.len() as u64, 2];
    let (d5, b5, sh5, a5) = (dims5.clone(), bes.clone(), shapes.clone(), algs2.clone());
    p.spaces.push(Space::new("2-D: shapes x crops x algorithms (Conv/Interp/SuperSampling, custom filters) x alpha on/off", product(&dims5), move |idx, ctx| {
        let mut d = [0usize; 4];
        decode(idx, &d5, &mut d);
        let (sw, sh, dw, dh) = sh5[d[0]];
        let (cxs, cys) = (crop1_small(sw), crop1_small(sh));
        let (cx, cy) = match d[1] {
            0 => (cxs[0], cys[0]),
            k => {
                if k >= cxs.len() && k >= cys.len() {
                    return;
                }
                (cxs[k % cxs.len()], cys[(k + 1) % cys.len()])
            }
        };
        let (alg, alpha) = (a5[d[2]], d[3] == 1);
        ctx.sample(|| json!({"src": [sw, sh], "dst": [dw, dh], "crop": [cx.start, cy.start, cx.len, cy.len], "alg": format!("{:?}", alg), "alpha": alpha}));
        if ctx.describe_only {
            return;
        }
        check_2d_eq(ctx, sw, sh, dw, dh, cx, cy, alg, alpha, &ALL_PT, &b5, seed);
        ctx.nontrivial += 1;
    }).isolated());

    // ---- (5) alpha operations: SIMD vs portable at every row width
    let dims6 = vec![6u64, 70, 2, 2];
    let (d6, b6) = (dims6.clone(), bes.clone());
    p.spaces.push(Space::new("alpha multiply/divide: 6 alpha types x row widths 1..70 x op x {two-image,in-place}", product(&dims6), move |idx, ctx| {
        let mut d = [0usize; 4];
        decode(idx, &d6, &mut d);
        let (pt, w, op, entry) = (ALPHA_PT[d[0]], d[1] as u32 + 1, if d[2] == 0 { Op::Mul } else { Op::Div }, if d[3] == 0 { Entry::TwoTyped } else { Entry::InplaceDyn });
        let ck = pt.ck();
        let nc = pt.ncomp();
        ctx.sample(|| json!({"type": format!("{:?}", pt), "row_width": w, "op": format!("{:?}", op), "entry": format!("{:?}", entry)}));
        if ctx.describe_only {
            return;
        }
        let b: Vec<f64> = match ck {
            CK::U8 => vec![0.0, 1.0, 2.0, 127.0, 128.0, 254.0, 255.0],
            CK::U16 => vec![0.0, 1.0, 255.0, 256.0, 32767.0, 32768.0, 65534.0, 65535.0],
            _ => vec![0.0, 1.0, 0.5, 0.25, 2.0, 1e-30, 255.0, -0.5, -2.0, -1e-30],
        };
        let mut l = Lcg::new(seed ^ idx);
        let src = Raw::from_fn(pt, w, 9, |x, y, c| {
            if (x + y) % 3 == 0 {
                b[((x * 7 + y * 3 + c as u32 * 5) as usize) % b.len()]
            } else if c == nc - 1 && y % 2 == 0 {
                b[((x + y) as usize) % b.len()]
            } else {
                l.comp(ck)
            }
        });
        let base = run_op(op, entry, BE::None, &src).unwrap();
        for &be in b6.iter() {
            if be == BE::None {
                continue;
            }
            let out = run_op(op, entry, be, &src).unwrap();
            ctx.ops += 1;
            let slack = if ck == CK::U16 && op == Op::Div { 1.0 } else { 0.0 };
            let ok = if ck == CK::F32 {
                (0..(w * 9) as usize * nc).all(|i| { let (a, bb) = (get_comp(ck, base.bytes(), i), get_comp(ck, out.bytes(), i)); a == bb || (a.is_nan() && bb.is_nan()) })
            } else {
                compare(&base, &out, slack, 0.0, false).is_none()
            };
            if !ok {
                ctx.violation(format!("C02|alpha {:?}|{:?}|{:?}|differs from portable", op, pt, be), || json!({"row_width": w, "entry": format!("{:?}", entry), "source_bytes": src.bytes().iter().take(64).collect::<Vec<_>>()}));
            }
            ctx.class(mix(mix(pt.idx() as u64 + 1300, be as u64), mix((w % 32) as u64, d[2] as u64 * 2 + d[3] as u64)));
        }
        ctx.outcome(fnv(base.bytes()));
        ctx.nontrivial += 1;
    }).isolated());

    p.rule = "1-D: every (n_in,n_out) up to the bound x crop sub-alphabet x (7 built-in + sharp(0.25,0.5,0.7) + lanczos4) x {Convolution, Interpolation}, all 13 types, both orientations: the portable result is compared bit-for-bit with the fixed-point model clip((2^(p-1)+Σk·x)>>p) built from the implementation's own tables (E2 conformance), and each SIMD back-end with the portable one; line counts 1..13 and 1..70 (row groups, trailing rows, every residue of row bytes mod 32); long kernels up to 4097 taps; 2-D shapes x crops x 35 algorithms x alpha on/off; alpha multiply/divide at every row width 1..70. Integer formats byte-identical (16-bit alpha division / alpha-aware resize ±1), floats within one f32 ulp (+2^-41 of the source magnitude) per pass".into();
    p.bounds = json!({"n_in_max": nin_max, "n_out_max": nout_max, "M": m});
    p.assumptions = vec!["NEON and WASM kernels cannot run on this host".into(), "float tolerance for two-pass results: 8 f32 ulps of max(|result|, |source|max)".into()];
    p
}
