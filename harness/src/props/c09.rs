//! C09 — a reused Resizer behaves exactly like a fresh one.
//! E3: explicit-state search (stateright) whose states hold a *real* `Resizer`; every transition
//! executes the real operation on the reused resizer and on `Resizer::new()`.
use crate::alg::*;
use crate::explore::*;
use crate::px::*;
use crate::{Prop, Tier};
use fast_image_resize as fir;
use fir::images::Image;
use fir::Resizer;
use serde_json::{json, Value};
use stateright::{Checker, Model, Property};
use std::collections::BTreeMap;
use std::hash::{Hash, Hasher};
use std::sync::atomic::{AtomicU64, Ordering};
use std::sync::{Arc, Mutex};

#[derive(Clone, Copy, Debug, PartialEq)]
pub enum Act {
    Resize { pt: PT, geo: usize, alg: Alg, alpha: bool, frac: bool },
    /// alpha-aware resize of a "sprite": opaque shapes on a fully transparent-black background
    /// (long runs of all-zero pixels, aligned to the vector width) — stale scratch content under
    /// those runs must not leak
    Sprite { pt: PT, geo: usize, alg: Alg },
    /// alpha-aware resize of an interior crop box (the middle third of the source in both axes, so
    /// the box is an up-scale for most geometries and has source rows/columns beyond the filter's
    /// reach on every side): whatever an earlier call left in the kept premultiplied copy around
    /// the box must not leak
    Interior { pt: PT, geo: usize, alg: Alg },
    /// equally sized tiles cut out of one image at different origins (crop origin k, fixed crop size):
    /// anything cached per geometry must not survive a change of the crop origin alone
    Tile { pt: PT, geo: usize, alg: Alg, k: u8 },
    /// a larger alpha-aware resize of full-range 16-bit content (thousands of pixels): the portable and
    /// the SIMD alpha division legitimately differ by one unit on rare (colour, alpha) pairs, so a
    /// Resizer whose alpha kernels run on another back-end than the selected one shows up here
    BigAlpha { pt: PT },
    /// an all-0xFF image (opaque white for 8-bit types): leaves bytes in the kept scratch buffers
    /// that decode to NaN as f32 and to the maximum as any integer - whatever a later, smaller call
    /// reads beyond its own image (even with weight 0) shows up
    White { geo: usize, alg: Alg },
    /// SuperSampling(Box, 1) whose source is a (whole-image) CroppedImage: cropped and typed owned
    /// containers step through their rows with the trait's default iterator, Image / ImageRef with a
    /// specialised one
    ViewSS { pt: PT, geo: usize },
    /// invalid crop box
    BadCrop { pt: PT },
    /// source and destination of different pixel types
    Mismatch,
    Reset,
    CloneIt,
    SetBe(BE),
}

const GEOS: [((u32, u32), (u32, u32)); 22] = [
    ((3, 3), (2, 2)),
    ((9, 7), (4, 5)),
    ((4, 5), (9, 7)),
    ((16, 16), (5, 3)),
    // size ladders (ratio ~1.2-1.3 between neighbours): the scratch buffers are grow-only Vecs whose
    // capacity doubles, so three growing requests within a factor of two exercise len < need <= capacity
    ((16, 40), (8, 10)),
    ((16, 40), (8, 13)),
    ((16, 40), (8, 15)),
    ((16, 40), (8, 18)),
    ((16, 40), (8, 22)),
    ((6, 6), (3, 3)),
    ((7, 7), (3, 3)),
    ((8, 8), (3, 3)),
    ((9, 9), (3, 3)),
    ((10, 10), (3, 3)),
    ((40, 40), (4, 4)),
    ((40, 40), (5, 5)),
    ((40, 40), (6, 6)),
    ((40, 40), (7, 7)),
    // tiny: a Vec<u8> never allocates fewer than 8 bytes, so 4 bytes then 8 bytes is len < need <= capacity
    ((3, 2), (2, 1)),
    ((7, 2), (3, 1)),
    // height pairs whose nearest-neighbour row count (extent - start) / step sits a rounding error
    // below an integer: a row iterator that yields one row too few leaves the last row of the
    // supersampling scratch image as it was
    ((14, 14), (3, 3)),
    ((28, 10), (3, 6)),
];

/// Ladder actions: (pixel type, geometry index, algorithm, alpha) — one ladder per scratch buffer.
fn ladder_actions() -> Vec<Act> {
    let mut v = vec![];
    for g in 4..=8 {
        v.push(Act::Resize { pt: PT::U8, geo: g, alg: Alg::Conv(F::Bilinear), alpha: false, frac: false }); // convolution_buffer
    }
    for g in 9..=13 {
        v.push(Act::Resize { pt: PT::U8x4, geo: g, alg: Alg::Conv(F::Box), alpha: true, frac: false }); // alpha_buffer
    }
    for g in 14..=17 {
        v.push(Act::Resize { pt: PT::U16x3, geo: g, alg: Alg::SS(F::Box, 2), alpha: false, frac: false }); // super_sampling_buffer
    }
    for g in 18..=19 {
        v.push(Act::Resize { pt: PT::U8, geo: g, alg: Alg::Conv(F::Bilinear), alpha: false, frac: false });
    }
    v
}

/// The ladder alphabet: size ladders of the three scratch buffers plus reset / clone.
pub fn ladder_alphabet() -> Vec<Act> {
    let mut l = ladder_actions();
    l.push(Act::Reset);
    l.push(Act::CloneIt);
    l
}

pub fn alphabet(tier: Tier, sub: bool) -> Vec<Act> {
    let pts = [PT::U8, PT::U8x2, PT::U8x3, PT::U16x3, PT::U16x4, PT::F32, PT::F32x3, PT::F32x4];
    let algs = [Alg::Nearest, Alg::Conv(F::Lanczos3), Alg::Interp(F::Bilinear), Alg::SS(F::Box, 2)];
    let mut v = vec![];
    if sub {
        // 40-action sub-alphabet for the deeper search
        for (pi, &pt) in pts.iter().enumerate() {
            for g in [1usize, 3] {
                let alg = algs[(pi + g) % 4];
                v.push(Act::Resize { pt, geo: g, alg, alpha: pt.has_alpha(), frac: false });
            }
        }
        for &pt in [PT::U8x2, PT::U16x4, PT::F32x4, PT::U8, PT::F32x3].iter() {
            v.push(Act::Resize { pt, geo: 2, alg: Alg::Conv(F::Lanczos3), alpha: pt.has_alpha(), frac: true });
            v.push(Act::Resize { pt, geo: 3, alg: Alg::SS(F::Box, 2), alpha: false, frac: false });
            v.push(Act::Resize { pt, geo: 0, alg: Alg::Conv(F::Lanczos3), alpha: pt.has_alpha(), frac: false });
        }
    } else {
        for &pt in pts.iter() {
            for g in 0..4 {
                for &alg in algs.iter() {
                    v.push(Act::Resize { pt, geo: g, alg, alpha: false, frac: false });
                }
            }
        }
        for &pt in [PT::U8x2, PT::U16x4, PT::F32x4].iter() {
            for g in 0..4 {
                for &alg in [Alg::Conv(F::Lanczos3), Alg::SS(F::Box, 2)].iter() {
                    v.push(Act::Resize { pt, geo: g, alg, alpha: true, frac: false });
                }
            }
        }
        for &pt in [PT::U8, PT::U8x3, PT::U16x4, PT::F32x3].iter() {
            for g in [1usize, 2] {
                for &alg in [Alg::Conv(F::Lanczos3), Alg::Nearest].iter() {
                    v.push(Act::Resize { pt, geo: g, alg, alpha: pt.has_alpha(), frac: true });
                }
            }
        }
        let _ = tier;
    }
    v.extend(ladder_actions());
    if !sub {
        // every alpha pixel type: an opaque/noisy alpha-aware call and a sprite of the same geometry
        for &pt in ALPHA_PT.iter() {
            for g in [3usize, 4] {
                v.push(Act::Resize { pt, geo: g, alg: Alg::Conv(F::Bilinear), alpha: true, frac: false });
                v.push(Act::Sprite { pt, geo: g, alg: Alg::Conv(F::Bilinear) });
            }
            for g in [1usize, 2, 3] {
                v.push(Act::Interior { pt, geo: g, alg: Alg::Conv(F::Lanczos3) });
            }
            v.push(Act::Interior { pt, geo: 2, alg: Alg::Conv(F::CatmullRom) });
        }
    } else {
        for (pi, &pt) in ALPHA_PT.iter().enumerate() {
            v.push(Act::Interior { pt, geo: 1 + pi % 3, alg: Alg::Conv(F::Lanczos3) });
        }
    }
    // tiles: the same crop size at three origins, for the algorithms that build per-geometry tables
    for (pt, geo) in [(PT::U8x3, 1usize), (PT::U16x2, 3)] {
        if sub && pt == PT::U16x2 {
            continue;
        }
        for alg in [Alg::Nearest, Alg::SS(F::Box, 2), Alg::Conv(F::Bilinear)] {
            for k in 0..3u8 {
                v.push(Act::Tile { pt, geo, alg, k });
            }
        }
    }
    // all-0xFF content, larger (in bytes) than the later float calls: alpha buffer and supersampling buffer
    v.push(Act::White { geo: 14, alg: Alg::Conv(F::Box) });
    v.push(Act::White { geo: 14, alg: Alg::SS(F::Box, 2) });
    if sub {
        // the float alpha types of geometry 4 (2x down-scale in x: odd window lengths at the row end)
        v.push(Act::Resize { pt: PT::F32x2, geo: 4, alg: Alg::Conv(F::Bilinear), alpha: true, frac: false });
        v.push(Act::Resize { pt: PT::F32x2, geo: 4, alg: Alg::SS(F::Bilinear, 1), alpha: false, frac: false });
    }
    for g in [20usize, 21] {
        v.push(Act::ViewSS { pt: PT::U8x3, geo: g });
    }
    v.push(Act::BigAlpha { pt: PT::U16x2 });
    if !sub {
        v.push(Act::BigAlpha { pt: PT::U16x4 });
    }
    v.push(Act::BadCrop { pt: PT::U8x4 });
    v.push(Act::BadCrop { pt: PT::F32 });
    v.push(Act::Mismatch);
    v.push(Act::Reset);
    v.push(Act::CloneIt);
    for be in backends() {
        v.push(Act::SetBe(be));
    }
    v
}

/// Source content for an action: never a zero byte, so stale data is distinguishable from a
/// freshly zeroed scratch buffer.
fn source(pt: PT, w: u32, h: u32, key: u64) -> Raw {
    let ck = pt.ck();
    let mut l = Lcg::new(key);
    Raw::from_fn(pt, w, h, |_, _, _| match ck {
        CK::U8 => (l.next() % 255 + 1) as f64,
        CK::U16 => ((l.next() % 255 + 1) * 257) as f64,
        CK::I32 => (l.next() % 100000 + 1) as f64,
        CK::F32 => 0.25 + (l.next() % 1000) as f64 / 1000.0,
    })
}

/// Execute one action on a resizer; returns (result text, destination bytes).
fn exec(rz: &mut Resizer, act: Act, key: u64) -> (String, Vec<u8>) {
    match act {
        Act::Resize { pt, geo, alg, alpha, frac } => {
            let ((sw, sh), (dw, dh)) = GEOS[geo];
            let src = source(pt, sw, sh, key);
            let mut o = Opts::new(alg);
            o.alpha = alpha;
            if frac {
                o.cx = Some(Crop1 { start: 0.5, len: sw as f64 - 1.25 });
                o.cy = Some(Crop1 { start: 0.25, len: sh as f64 - 0.5 });
            }
            let mut dst = Raw::filled(pt, dw, dh, 0x5A);
            let r = resize_into(rz, &src, &mut dst, &o);
            (format!("{:?}", r), dst.bytes().to_vec())
        }
        Act::Sprite { pt, geo, alg } => {
            let ((sw, sh), (dw, dh)) = GEOS[geo];
            let noisy = source(pt, sw, sh, key);
            // transparent black everywhere except a few opaque blocks; zero runs of >= 8 pixels
            // starting at multiples of 8 (and whole zero rows)
            let src = Raw::from_fn(pt, sw, sh, |x, y, c| if (x / 8 + y / 3) % 2 == 0 || y % 5 == 4 { 0.0 } else { noisy.get(x, y, c) });
            let mut o = Opts::new(alg);
            o.alpha = true;
            let mut dst = Raw::filled(pt, dw, dh, 0x5A);
            let r = resize_into(rz, &src, &mut dst, &o);
            (format!("{:?}", r), dst.bytes().to_vec())
        }
        Act::Interior { pt, geo, alg } => {
            let ((sw, sh), (dw, dh)) = GEOS[geo];
            let src = source(pt, sw, sh, key);
            let mut o = Opts::new(alg);
            o.alpha = true;
            o.cx = Some(Crop1 { start: (sw / 3) as f64, len: ((sw + 2) / 3) as f64 });
            o.cy = Some(Crop1 { start: (sh / 3) as f64, len: ((sh + 2) / 3) as f64 });
            let mut dst = Raw::filled(pt, dw, dh, 0x5A);
            let r = resize_into(rz, &src, &mut dst, &o);
            (format!("{:?}", r), dst.bytes().to_vec())
        }
        Act::Tile { pt, geo, alg, k } => {
            let ((sw, sh), (dw, dh)) = GEOS[geo];
            let src = source(pt, sw, sh, key);
            let mut o = Opts::new(alg);
            o.alpha = pt.has_alpha();
            o.cx = Some(Crop1 { start: k as f64, len: sw as f64 - 2.0 });
            o.cy = Some(Crop1 { start: (k % 2) as f64, len: sh as f64 - 1.0 });
            let mut dst = Raw::filled(pt, dw, dh, 0x5A);
            let r = resize_into(rz, &src, &mut dst, &o);
            (format!("{:?}", r), dst.bytes().to_vec())
        }
        Act::BigAlpha { pt } => {
            let (sw, sh, dw, dh) = (64u32, 48u32, 48u32, 40u32);
            let mut l = Lcg::new(key ^ 0xA1FA);
            let nc = pt.ncomp();
            let src = Raw::from_fn(pt, sw, sh, |_, _, c| {
                let v = l.next() % 65536;
                if c == nc - 1 { v.max(1) as f64 } else { v as f64 }
            });
            let mut o = Opts::new(Alg::Conv(F::Bilinear));
            o.alpha = true;
            let mut dst = Raw::filled(pt, dw, dh, 0x5A);
            let r = resize_into(rz, &src, &mut dst, &o);
            (format!("{:?}", r), dst.bytes().to_vec())
        }
        Act::White { geo, alg } => {
            let pt = PT::U8x4;
            let ((sw, sh), (dw, dh)) = GEOS[geo];
            let src = Raw::from_fn(pt, sw, sh, |_, _, _| 255.0);
            let mut o = Opts::new(alg);
            o.alpha = true;
            let mut dst = Raw::filled(pt, dw, dh, 0x5A);
            let r = resize_into(rz, &src, &mut dst, &o);
            (format!("{:?}", r), dst.bytes().to_vec())
        }
        Act::ViewSS { pt, geo } => {
            let ((sw, sh), (dw, dh)) = GEOS[geo];
            let src = source(pt, sw, sh, key);
            let mut dst = Raw::filled(pt, dw, dh, 0x5A);
            let r = {
                let s = src.image_ref();
                let view = fir::images::CroppedImage::new(&s, 0, 0, sw, sh).unwrap();
                let (w, h, p) = (dst.w, dst.h, dst.pt.fir());
                let mut d = Image::from_slice_u8(w, h, dst.buf.as_mut(), p).unwrap();
                let o = fir::ResizeOptions::new().resize_alg(fir::ResizeAlg::SuperSampling(fir::FilterType::Box, 1)).use_alpha(false);
                rz.resize(&view, &mut d, &o)
            };
            (format!("{:?}", r), dst.bytes().to_vec())
        }
        Act::BadCrop { pt } => {
            let src = source(pt, 4, 4, key);
            let mut o = Opts::new(Alg::Conv(F::Bilinear));
            o.cx = Some(Crop1 { start: 2.0, len: 3.0 });
            let mut dst = Raw::filled(pt, 3, 3, 0x5A);
            let r = resize_into(rz, &src, &mut dst, &o);
            (format!("{:?}", r), dst.bytes().to_vec())
        }
        Act::Mismatch => {
            let src = source(PT::U8x4, 4, 4, key);
            let mut dst = Raw::filled(PT::U8x3, 3, 3, 0x5A);
            let r = {
                let s = src.image_ref();
                let (w, h, p) = (dst.w, dst.h, dst.pt.fir());
                let mut d = Image::from_slice_u8(w, h, dst.buf.as_mut(), p).unwrap();
                rz.resize(&s, &mut d, &fir::ResizeOptions::new())
            };
            (format!("{:?}", r), dst.bytes().to_vec())
        }
        _ => (String::new(), vec![]),
    }
}

#[derive(Clone)]
pub struct St {
    key: u64,
    depth: u8,
    path: Vec<u16>,
}

impl std::fmt::Debug for St {
    fn fmt(&self, f: &mut std::fmt::Formatter<'_>) -> std::fmt::Result {
        write!(f, "St(depth {}, key {:x}, path {:?})", self.depth, self.key, self.path)
    }
}
impl PartialEq for St {
    fn eq(&self, o: &Self) -> bool {
        self.key == o.key && self.depth == o.depth
    }
}
impl Eq for St {}
impl Hash for St {
    fn hash<H: Hasher>(&self, h: &mut H) {
        self.key.hash(h);
        self.depth.hash(h);
    }
}

/// The state key: the Debug rendering of the Resizer prints the back-end and the complete
/// contents of the three scratch buffers — everything that can influence later calls.
fn state_key(rz: &Resizer) -> u64 {
    fnv(format!("{:?}|cap{}", rz, rz.size_of_internal_buffers()).as_bytes())
}

pub struct Side {
    pub transitions: AtomicU64,
    pub compared: AtomicU64,
    pub viols: Mutex<BTreeMap<String, (u64, Value)>>,
    pub outcomes: Mutex<std::collections::HashSet<u64>>,
}

pub struct M {
    pub alphabet: &'static str,
    pub sub: bool,
    pub acts: Vec<Act>,
    pub max_depth: u8,
    pub side: Arc<Side>,
}

/// One transition, executed IN PLACE on the live (reused) Resizer — never on a clone: `Vec::clone`
/// gives capacity == len, which would silently reset the one piece of scratch-buffer state
/// (spare capacity) that a history can build up. Returns violations and an outcome hash.
pub fn step_live(rz: &mut Resizer, be: &mut BE, act: Act, acts_idx: usize, depth: u8) -> (Vec<(String, Value)>, u64) {
    let mut viols = vec![];
    let mut out_hash = 0u64;
    match act {
        Act::Reset => {
            rz.reset_internal_buffers();
            if rz.size_of_internal_buffers() != 0 {
                viols.push(("C09|reset_internal_buffers leaves capacity".to_string(), json!({"size": rz.size_of_internal_buffers()})));
            }
        }
        Act::CloneIt => {
            let c = rz.clone();
            *rz = c;
        }
        Act::SetBe(b) => {
            unsafe { rz.set_cpu_extensions(b.fir()) };
            *be = b;
        }
        _ => {
            let key = 0xC09u64 ^ ((acts_idx as u64) << 8) ^ depth as u64;
            let reused = guarded(|| exec(rz, act, key));
            let mut fresh_rz = new_resizer(*be);
            let fresh = guarded(|| exec(&mut fresh_rz, act, key));
            match (reused, fresh) {
                (Ok((r1, d1)), Ok((r2, d2))) => {
                    out_hash = fnv(&d1);
                    if r1 != r2 {
                        viols.push((format!("C09|{}|result value differs from a fresh Resizer", act_class(act)), json!({"reused": r1, "fresh": r2})));
                    } else if d1 != d2 {
                        let i = d1.iter().zip(d2.iter()).position(|(a, b)| a != b).unwrap_or(0);
                        viols.push((format!("C09|{}|destination differs from a fresh Resizer", act_class(act)), json!({"first_differing_byte": i, "reused": d1[i], "fresh": d2[i], "result": r1})));
                    }
                }
                (Err((loc, msg)), _) => viols.push((format!("C09|{}|panic on the reused Resizer|{}", act_class(act), loc), json!({"message": msg}))),
                (_, Err((loc, msg))) => viols.push((format!("C09|{}|panic on a fresh Resizer|{}", act_class(act), loc), json!({"message": msg}))),
            }
        }
    }
    (viols, out_hash)
}

/// Rebuild the live Resizer of a state by replaying its action path from `Resizer::new()`.
/// None if a prefix step panics (that step was already reported; nothing meaningful follows).
pub fn rebuild(acts: &[Act], path: &[u16]) -> Option<(Resizer, BE)> {
    let mut rz = Resizer::new();
    let mut be = *backends().last().unwrap();
    for (d, &a) in path.iter().enumerate() {
        let act = acts[a as usize];
        match act {
            Act::Reset => rz.reset_internal_buffers(),
            Act::CloneIt => {
                let c = rz.clone();
                rz = c;
            }
            Act::SetBe(b) => {
                unsafe { rz.set_cpu_extensions(b.fir()) };
                be = b;
            }
            _ => {
                let key = 0xC09u64 ^ ((a as u64) << 8) ^ d as u64;
                if guarded(|| exec(&mut rz, act, key)).is_err() {
                    return None;
                }
            }
        }
    }
    Some((rz, be))
}

fn act_class(a: Act) -> String {
    match a {
        Act::Resize { pt, alg, alpha, .. } => format!("resize {:?} {} alpha={}", pt, crate::props::c01::alg_class(alg), alpha),
        Act::Sprite { pt, alg, .. } => format!("resize sprite {:?} {} alpha=true", pt, crate::props::c01::alg_class(alg)),
        Act::Interior { pt, alg, .. } => format!("resize interior crop {:?} {} alpha=true", pt, crate::props::c01::alg_class(alg)),
        Act::Tile { pt, alg, .. } => format!("resize tile {:?} {}", pt, crate::props::c01::alg_class(alg)),
        Act::BigAlpha { pt } => format!("resize 64x48 full-range alpha {:?}", pt),
        Act::White { alg, .. } => format!("resize all-0xFF U8x4 {}", crate::props::c01::alg_class(alg)),
        Act::ViewSS { pt, .. } => format!("SuperSampling(Box,1) from a CroppedImage {:?}", pt),
        o => format!("{:?}", o),
    }
}

impl Model for M {
    type State = St;
    type Action = u16;
    fn init_states(&self) -> Vec<St> {
        let rz = Resizer::new();
        vec![St { key: state_key(&rz), depth: 0, path: vec![] }]
    }
    fn actions(&self, s: &St, out: &mut Vec<u16>) {
        if s.depth < self.max_depth {
            out.extend(0..self.acts.len() as u16);
        }
    }
    fn next_state(&self, s: &St, a: u16) -> Option<St> {
        let act = self.acts[a as usize];
        // the state's live Resizer is re-created by replaying its path on ONE Resizer (no clones)
        let (mut rz2, mut be2) = rebuild(&self.acts, &s.path)?;
        let (viols, oh) = step_live(&mut rz2, &mut be2, act, a as usize, s.depth);
        self.side.transitions.fetch_add(1, Ordering::Relaxed);
        if !matches!(act, Act::Reset | Act::CloneIt | Act::SetBe(_)) {
            self.side.compared.fetch_add(1, Ordering::Relaxed);
        }
        let mut path = s.path.clone();
        path.push(a);
        if !viols.is_empty() {
            let mut t = self.side.viols.lock().unwrap();
            for (sig, d) in viols {
                let e = t.entry(sig).or_insert((0, json!({"path": path, "actions": path.iter().map(|i| format!("{:?}", self.acts[*i as usize])).collect::<Vec<_>>(), "more": d, "sub_alphabet": self.sub, "alphabet": self.alphabet})));
                e.0 += 1;
            }
        }
        if oh != 0 {
            let mut o = self.side.outcomes.lock().unwrap();
            if o.len() < 1 << 16 {
                o.insert(oh);
            }
        }
        let _ = be2;
        Some(St { key: state_key(&rz2), depth: s.depth + 1, path })
    }
    fn properties(&self) -> Vec<Property<Self>> {
        // verdicts are collected in the side table so that one run lists every distinct failure;
        // this property only keeps the search running to completion
        vec![Property::always("search runs to completion (verdicts in the side table)", |_, _| true)]
    }
}

fn search(acts: Vec<Act>, depth: u8, threads: usize, name: &str) -> Report {
    let t0 = std::time::Instant::now();
    let side = Arc::new(Side { transitions: AtomicU64::new(0), compared: AtomicU64::new(0), viols: Mutex::new(BTreeMap::new()), outcomes: Mutex::new(Default::default()) });
    let nacts = acts.len();
    let m = M { alphabet: if name.starts_with("sub") { "sub" } else if name.starts_with("ladder") { "ladder" } else { "full" }, sub: name.starts_with("sub"), acts, max_depth: depth, side: side.clone() };
    let checker = m.checker().threads(threads).spawn_bfs().join();
    let mut rep = Report::default();
    rep.cases = checker.unique_state_count() as u64;
    rep.planned = rep.cases;
    rep.ops = side.transitions.load(Ordering::Relaxed);
    rep.traces = side.compared.load(Ordering::Relaxed);
    rep.nontrivial = rep.cases;
    rep.outcomes = side.outcomes.lock().unwrap().clone();
    rep.classes.insert(fnv(name.as_bytes()));
    for (sig, (n, d)) in side.viols.lock().unwrap().iter() {
        rep.sig_counts.insert(sig.clone(), *n);
        rep.viols.push(Viol { space: name.to_string(), idx: 0, sig: sig.clone(), detail: d.clone() });
    }
    rep.samples.push(json!({"search": name, "actions": nacts, "depth": depth, "unique_states": rep.cases, "generated_states": checker.state_count(), "transitions": rep.ops, "max_depth_reached": checker.max_depth(),
        "example_actions": ["Resize{U8x3, 9x7->4x5, Conv(Lanczos3)}", "Reset", "CloneIt", "SetBe(Sse4_1)", "BadCrop", "Mismatch"]}));
    rep.spaces.push(json!({"space": name, "engine": "stateright 0.31 spawn_bfs", "actions": nacts, "depth": depth, "unique_states": rep.cases, "generated_states": checker.state_count(), "transitions": rep.ops, "wall_s": t0.elapsed().as_secs_f64()}));
    eprintln!("[C09] {:<34} actions {:>4} depth {} states {:>9} generated {:>10} transitions {:>10} viol {} {:.1}s", name, nacts, depth, rep.cases, checker.state_count(), rep.ops, rep.sig_counts.len(), t0.elapsed().as_secs_f64());
    rep
}

fn search_isolated(tier: Tier, name: &'static str, threads: usize) -> Report {
    let exe = std::env::current_exe().expect("current_exe");
    let spec = format!("{}:{}", threads, name);
    crate::props::c08::run_engine_for("C09", exe.to_str().unwrap(), &["C09", tier.name()], &[("C09_SEARCH", &spec)], name)
}

/// Entry of the child process started by `search_isolated`: runs one search, prints its report.
pub fn child_search(tier: Tier, spec: &str) {
    let (threads, name) = spec.split_once(':').expect("C09_SEARCH=<threads>:<name>");
    let threads: usize = threads.parse().expect("threads");
    let (d_full, d_sub): (u8, u8) = tier.pick((2, 3), (3, 4));
    let rep = if name.starts_with("ladder") {
        search(ladder_alphabet(), tier.pick(4, 5), threads, name)
    } else if name.starts_with("sub") {
        search(alphabet(tier, true), d_sub, threads, name)
    } else {
        search(alphabet(tier, false), d_full, threads, name)
    };
    let mut v = report_to_json(&rep);
    v["planned"] = json!(rep.planned);
    v["spaces"] = json!(rep.spaces);
    println!("{}", v);
}

pub fn prop(tier: Tier, _seed: u64) -> Prop {
    let mut p = Prop::new("C09");
    let full = alphabet(tier, false);
    let sub = alphabet(tier, true);
    let (d_full, d_sub): (u8, u8) = tier.pick((2, 3), (3, 4));
    let (f1, s1) = (full.clone(), sub.clone());
    // ladder alphabet: only the size ladders of the three scratch buffers plus reset / clone, deeper
    let ladder: Vec<Act> = ladder_alphabet();
    let d_ladder: u8 = tier.pick(4, 5);
    let l1 = ladder.clone();
    // every search runs in a child process of its own (the transitions execute the library's
    // kernels on a live Resizer: a memory-corrupting change must end in a verdict, not in an
    // aborted driver)
    let _ = (l1, f1, s1);
    p.extra.push(Box::new(move |cfg| search_isolated(tier, "ladder alphabet, deepest", cfg.threads)));
    p.extra.push(Box::new(move |cfg| {
        // run twice and compare the counts: the model must be deterministic
        let a = search_isolated(tier, "full alphabet", cfg.threads);
        if tier == Tier::Thorough {
            return a; // the repeat is done in the quick tier (same model, same engine)
        }
        let b = search_isolated(tier, "full alphabet (repeat)", cfg.threads);
        let mut r = a.clone();
        if (a.cases != b.cases || a.ops != b.ops) && a.sig_counts.is_empty() && b.sig_counts.is_empty() {
            eprintln!("MACHINERY-ERROR stateright search is not deterministic: {} vs {} states", a.cases, b.cases);
            r.notes.insert("machinery_errors".into(), 1);
        }
        r
    }));
    p.extra.push(Box::new(move |cfg| search_isolated(tier, "sub-alphabet, deeper", cfg.threads)));
    let (f2, s2) = (full.clone(), sub.clone());
    p.replay_fn = Some(Box::new(move |detail: &Value| {
        let l2 = ladder_alphabet();
        let acts = match detail["alphabet"].as_str() {
            Some("ladder") => &l2,
            Some("sub") => &s2,
            Some("full") => &f2,
            _ => if detail["sub_alphabet"].as_bool().unwrap_or(false) { &s2 } else { &f2 },
        };
        let path: Vec<usize> = detail["path"].as_array().map(|a| a.iter().filter_map(|x| x.as_u64()).map(|x| x as usize).collect()).unwrap_or_default();
        let mut rz = Resizer::new();
        let mut be = *backends().last().unwrap();
        let mut out = vec![];
        for (d, &a) in path.iter().enumerate() {
            println!("step {}: {:?}", d, acts[a]);
            let (v, _) = step_live(&mut rz, &mut be, acts[a], a, d as u8);
            out.extend(v);
        }
        out
    }));
    p.rule = format!("explicit-state search over Resizer histories: full alphabet of {} actions (8 pixel types with pixel sizes 1,2,3,6,8,4,12,16 x 4 geometries incl. larger-then-smaller x {{Nearest, Convolution(Lanczos3), Interpolation(Bilinear), SuperSampling(Box,2)}}, alpha on, fractional crops, sprites with long zero runs and alpha-aware up-scales of an interior crop box (middle third, Lanczos3/CatmullRom) for all six alpha types, size ladders of the three scratch buffers, equally sized tiles at three crop origins (Nearest / SuperSampling / Convolution), a 64x48 full-range 16-bit alpha resize, all-0xFF images (NaN bit patterns left in the scratch buffers), two erroring calls, reset_internal_buffers, clone, set_cpu_extensions) to depth {}, and a {}-action sub-alphabet to depth {}; every transition executes the real operation on the reused Resizer and on Resizer::new() with the same back-end and compares result value and destination bytes; states are deduplicated on the Debug rendering of the Resizer (back-end + full contents of the three scratch buffers) and the depth", full.len(), d_full, sub.len(), d_sub);
    p.bounds = json!({"actions_full": full.len(), "depth_full": d_full, "actions_sub": sub.len(), "depth_sub": d_sub});
    p.assumptions = vec!["the Debug rendering of Resizer shows every field that can influence later calls (cpu extensions, MulDiv, the three Vec<u8> buffers); capacity is added through size_of_internal_buffers()".into(), "allocator alignment of the scratch buffers is whatever the system allocator returns here; deliberately misaligned allocations are exercised in C03".into()];
    p
}
