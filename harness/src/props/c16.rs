//! C16 — colour-space mappers are monotone, fix the endpoints and keep alpha.
use crate::explore::*;
use crate::px::*;
use crate::{Prop, Tier};
use fast_image_resize as fir;
use fir::images::{CroppedImageMut, Image};
use fir::{create_gamma_22_mapper, create_srgb_mapper, MappingError, PixelComponentMapper};
use serde_json::json;
use std::sync::OnceLock;

fn mapper(which: usize) -> &'static PixelComponentMapper {
    static M: [OnceLock<PixelComponentMapper>; 2] = [OnceLock::new(), OnceLock::new()];
    M[which].get_or_init(|| if which == 0 { create_srgb_mapper() } else { create_gamma_22_mapper() })
}

/// Documented transfer functions, evaluated in f64.
fn transfer(which: usize, forward: bool, x: f64) -> f64 {
    match (which, forward) {
        (0, true) => {
            if x < 0.04045 {
                x / 12.92
            } else {
                ((x + 0.055) / 1.055).powf(2.4)
            }
        }
        (0, false) => {
            if x < 0.0031308 {
                12.92 * x
            } else {
                1.055 * x.powf(1.0 / 2.4) - 0.055
            }
        }
        (_, true) => x.powf(2.2),
        (_, false) => x.powf(1.0 / 2.2),
    }
}

#[derive(Clone, Copy, Debug, PartialEq)]
enum Cont {
    Exact,
    Oversized,
    CroppedView,
}

/// Map `src` (tight) through the real API into a destination of the given container kind; returns
/// the destination *rectangle* as a tight Raw plus whether the surroundings stayed untouched.
fn run_map(
    which: usize,
    forward: bool,
    src: &Raw,
    dpt: PT,
    cont: Cont,
    inplace: bool,
) -> Result<(Raw, bool), MappingError> {
    let m = mapper(which);
    let (w, h) = (src.w, src.h);
    let ps = dpt.psize();
    match cont {
        Cont::Exact | Cont::Oversized => {
            let extra = if cont == Cont::Oversized { (w as usize + 2) * ps } else { 0 };
            let need = w as usize * h as usize * ps;
            let mut buf = ABuf::filled(need + extra, 0x5A);
            if inplace {
                buf.as_mut()[..need].copy_from_slice(src.bytes());
            }
            let r = {
                let mut di = Image::from_slice_u8(w, h, buf.as_mut(), dpt.fir()).unwrap();
                if inplace {
                    if forward {
                        m.forward_map_inplace(&mut di)
                    } else {
                        m.backward_map_inplace(&mut di)
                    }
                } else {
                    let si = src.image_ref();
                    if forward {
                        m.forward_map(&si, &mut di)
                    } else {
                        m.backward_map(&si, &mut di)
                    }
                }
            };
            r?;
            let mut out = Raw::new(dpt, w, h);
            out.bytes_mut().copy_from_slice(&buf.as_ref()[..need]);
            let clean = buf.as_ref()[need..].iter().all(|b| *b == 0x5A);
            Ok((out, clean))
        }
        Cont::CroppedView => {
            let (ml, mt, mr, mb) = (1u32, 2u32, 3u32, 1u32);
            let (pw, ph) = (w + ml + mr, h + mt + mb);
            let mut parent = Raw::filled(dpt, pw, ph, 0x5A);
            if inplace {
                for y in 0..h {
                    for x in 0..w {
                        let s = src.pixel_bytes(x, y).to_vec();
                        let o = ((y + mt) as usize * pw as usize + (x + ml) as usize) * ps;
                        parent.bytes_mut()[o..o + ps].copy_from_slice(&s);
                    }
                }
            }
            let r = {
                let mut pi = parent.image_mut();
                let mut view = CroppedImageMut::new(&mut pi, ml, mt, w, h).unwrap();
                if inplace {
                    if forward {
                        m.forward_map_inplace(&mut view)
                    } else {
                        m.backward_map_inplace(&mut view)
                    }
                } else {
                    let si = src.image_ref();
                    if forward {
                        m.forward_map(&si, &mut view)
                    } else {
                        m.backward_map(&si, &mut view)
                    }
                }
            };
            r?;
            let mut out = Raw::new(dpt, w, h);
            let mut clean = true;
            for y in 0..ph {
                for x in 0..pw {
                    let o = (y as usize * pw as usize + x as usize) * ps;
                    let px = &parent.bytes()[o..o + ps];
                    let inside = x >= ml && x < ml + w && y >= mt && y < mt + h;
                    if inside {
                        let d = ((y - mt) as usize * w as usize + (x - ml) as usize) * ps;
                        out.bytes_mut()[d..d + ps].copy_from_slice(px);
                    } else if px.iter().any(|b| *b != 0x5A) {
                        clean = false;
                    }
                }
            }
            Ok((out, clean))
        }
    }
}

const NAMES: [&str; 2] = ["sRGB", "gamma2.2"];

pub fn prop(tier: Tier, _seed: u64) -> Prop {
    let mut p = Prop::new("C16");
    let widths: Vec<u32> = tier.pick(vec![1, 2, 3, 4, 7, 9], (1..=9).collect());
    let conts = [Cont::Exact, Cont::Oversized, Cont::CroppedView];
    // axes: mapper 2, dir 2, src depth 2, dst depth 2, ncomp 4, inplace 2, width, container 3
    let dims: Vec<u64> = vec![2, 2, 2, 2, 4, 2, widths.len() as u64, 3];
    let n = product(&dims);
    let dims2 = dims.clone();
    let widths2 = widths.clone();
    p.spaces.push(Space::new("mapper x dir x depths x comps x inplace x width x container", n, move |idx, ctx| {
        let mut d = [0usize; 8];
        decode(idx, &dims2, &mut d);
        let (which, forward, sdepth, ddepth, nc, inplace, width, cont) =
            (d[0], d[1] == 0, d[2], d[3], d[4] + 1, d[5] == 1, widths2[d[6]], conts[d[7]]);
        if inplace && sdepth != ddepth {
            return; // no such variant
        }
        let sck = if sdepth == 0 { CK::U8 } else { CK::U16 };
        let dck = if ddepth == 0 { CK::U8 } else { CK::U16 };
        let spt = PT::of(sck, nc).unwrap();
        let dpt = PT::of(dck, nc).unwrap();
        let v = if sck == CK::U8 { 256usize } else { 65536 };
        let has_alpha = nc == 2 || nc == 4;
        ctx.sample(|| json!({"mapper": NAMES[which], "forward": forward, "src": format!("{:?}", spt), "dst": format!("{:?}", dpt), "inplace": inplace, "row_width": width, "container": format!("{:?}", cont), "values": v}));
        // V pixels; channel c of pixel p carries (p + 7c) mod V: every value at every channel,
        // and - as the width varies - at every column including row ends
        let h = (v as u32 + width - 1) / width;
        let src = Raw::from_fn(spt, width, h, |x, y, c| {
            let pidx = y as usize * width as usize + x as usize;
            ((pidx + 7 * c) % v) as f64
        });
        let (out, clean) = match run_map(which, forward, &src, dpt, cont, inplace) {
            Ok(o) => o,
            Err(e) => {
                ctx.violation("C16|supported combination rejected", || json!({"err": format!("{:?}", e)}));
                return;
            }
        };
        ctx.ops += (width * h) as u64 * nc as u64;
        if !clean {
            // a C05 concern (decided there); C16 does not state it, so it is only counted here
            ctx.note("mappings that touched bytes outside the destination rectangle (see C05)", 1);
        }
        let (smax, dmax) = (sck.max(), dck.max());
        // table per colour channel observed
        let mut table = vec![-1.0f64; v];
        let slack = dmax / (1u64 << 19) as f64;
        let mut reported = [false; 4];
        for y in 0..h {
            for x in 0..width {
                for c in 0..nc {
                    let sv = src.get(x, y, c);
                    let dv = out.get(x, y, c);
                    let is_alpha = has_alpha && c == nc - 1;
                    if is_alpha {
                        let want = match (sck, dck) {
                            (CK::U8, CK::U16) => sv * 257.0,
                            (CK::U16, CK::U8) => (sv as u32 >> 8) as f64,
                            _ => sv,
                        };
                        if dv != want && !reported[0] {
                            reported[0] = true;
                            ctx.violation(format!("C16|alpha component not a plain depth conversion|{}", if inplace { "inplace" } else { "two-image" }), || {
                                json!({"alpha_in": sv, "alpha_out": dv, "want": want, "x": x, "y": y, "component": c})
                            });
                        }
                        continue;
                    }
                    let ideal = transfer(which, forward, sv / smax) * dmax;
                    if (dv - ideal).abs() > 0.5 + slack && !reported[1] {
                        reported[1] = true;
                        ctx.violation(format!("C16|table value is not the rounded transfer function|{}", NAMES[which]), || {
                            json!({"in": sv, "out": dv, "ideal": ideal, "x": x, "y": y, "component": c})
                        });
                    }
                    let t = &mut table[sv as usize];
                    if *t < 0.0 {
                        *t = dv;
                    } else if *t != dv && !reported[2] {
                        reported[2] = true;
                        ctx.violation("C16|same input value mapped differently at different positions", || {
                            json!({"in": sv, "out_a": *t, "out_b": dv, "x": x, "y": y, "component": c})
                        });
                    }
                }
            }
        }
        ctx.nontrivial += v as u64;
        ctx.traces += v as u64;
        // monotone, endpoints
        for i in 1..v {
            if table[i] >= 0.0 && table[i - 1] >= 0.0 && table[i] < table[i - 1] {
                ctx.violation(format!("C16|non-monotone|{}", NAMES[which]), || json!({"in": i, "f(in-1)": table[i-1], "f(in)": table[i]}));
                break;
            }
        }
        if table[0] != 0.0 || table[v - 1] != dmax {
            ctx.violation(format!("C16|endpoints not fixed|{}", NAMES[which]), || json!({"f(0)": table[0], "f(max)": table[v-1], "max_out": dmax}));
        }
        ctx.class(mix(mix(which as u64 * 2 + forward as u64, (sdepth * 2 + ddepth) as u64), mix(nc as u64 * 2 + inplace as u64, d[7] as u64)));
        ctx.outcome(fnv(out.bytes()));
    }).isolated());

    // sRGB 8 -> 16 linear -> 8 is the identity on all 256 values (every component count)
    p.spaces.push(Space::new("sRGB 8->16->8 round trip", 4 * 2, move |idx, ctx| {
        let nc = (idx / 2) as usize + 1;
        let which = (idx % 2) as usize;
        let s8 = PT::of(CK::U8, nc).unwrap();
        let s16 = PT::of(CK::U16, nc).unwrap();
        ctx.sample(|| json!({"mapper": NAMES[which], "components": nc, "values": 256, "asserted": which == 0}));
        let src = Raw::from_fn(s8, 16, 16, |x, y, c| ((y * 16 + x) as usize + 7 * c) as f64 % 256.0);
        let (lin, _) = run_map(which, true, &src, s16, Cont::Exact, false).unwrap();
        let (back, _) = run_map(which, false, &lin, s8, Cont::Exact, false).unwrap();
        ctx.ops += 512 * nc as u64;
        ctx.traces += 256;
        ctx.nontrivial += 256;
        let mut bad = 0;
        for i in 0..src.bytes().len() {
            if src.bytes()[i] != back.bytes()[i] {
                bad += 1;
            }
        }
        if which == 0 {
            if bad > 0 {
                ctx.violation("C16|sRGB 8->16->8 round trip not identity", || json!({"components": nc, "differing_components": bad}));
            }
        } else {
            ctx.note("gamma2.2 8->16->8 round-trip differences (informational)", bad);
        }
        ctx.outcome(fnv(lin.bytes()));
    }).isolated());

    // rejections: mismatched size, component count, unsupported types; destination untouched
    p.spaces.push(Space::new("rejection matrix", 13 * 13 * 5 * 4, move |idx, ctx| {
        let mut d = [0usize; 4];
        decode(idx, &[13, 13, 5, 4], &mut d);
        let (s, dd, var, which, backward) = (ALL_PT[d[0]], ALL_PT[d[1]], d[2], d[3] % 2, d[3] / 2 == 1);
        let (sw, sh) = (3u32, 2u32);
        let (dw, dh) = [(3u32, 2u32), (2, 3), (3, 3), (4, 2), (2, 2)][var];
        ctx.sample(|| json!({"src": format!("{:?} {}x{}", s, sw, sh), "dst": format!("{:?} {}x{}", dd, dw, dh), "mapper": NAMES[which]}));
        let mut l = Lcg::new(idx);
        let src = Raw::from_fn(s, sw, sh, |_, _, _| l.comp(s.ck()));
        let mut dst = Raw::filled(dd, dw, dh, 0xA5);
        let before = dst.bytes().to_vec();
        let m = mapper(which);
        let r = {
            let si = src.image_ref();
            let mut di = dst.image_mut();
            if backward {
                m.backward_map(&si, &mut di)
            } else {
                m.forward_map(&si, &mut di)
            }
        };
        ctx.ops += 1;
        ctx.nontrivial += 1;
        let int = |p: PT| matches!(p.ck(), CK::U8 | CK::U16);
        let sup = int(s) && int(dd) && s.ncomp() == dd.ncomp();
        let same = (sw, sh) == (dw, dh);
        match (&r, sup && same) {
            (Ok(()), true) => {}
            (Err(_), false) => {
                if dst.bytes() != &before[..] {
                    ctx.violation("C16|rejected call modified destination", || json!({"src": format!("{:?}", s), "dst": format!("{:?}", dd), "err": format!("{:?}", r)}));
                }
            }
            (Ok(()), false) => ctx.violation(format!("C16|accepted {}", if !same { "mismatched dimensions" } else if s.ncomp() != dd.ncomp() { "mismatched component count" } else { "unsupported pixel type" }), || {
                json!({"src": format!("{:?} {}x{}", s, sw, sh), "dst": format!("{:?} {}x{}", dd, dw, dh)})
            }),
            (Err(e), true) => ctx.violation("C16|supported combination rejected", || json!({"err": format!("{:?}", e), "src": format!("{:?}", s), "dst": format!("{:?}", dd)})),
        }
        // in-place on unsupported types
        if var == 0 && d[1] == 0 {
            let mut img = Raw::from_fn(s, 3, 2, |_, _, _| 1.0);
            let b = img.bytes().to_vec();
            let r = {
                let mut di = img.image_mut();
                m.backward_map_inplace(&mut di)
            };
            if int(s) != r.is_ok() {
                ctx.violation("C16|in-place support gate wrong", || json!({"type": format!("{:?}", s), "result": format!("{:?}", r)}));
            }
            if r.is_err() && img.bytes() != &b[..] {
                ctx.violation("C16|rejected call modified destination", || json!({"type": format!("{:?}", s)}));
            }
        }
        ctx.class(mix(mix(d[0] as u64, d[1] as u64), var as u64 + 1000));
        ctx.outcome(mix(r.is_ok() as u64, fnv(dst.bytes())));
    }).isolated());

    p.rule = "mapper {sRGB, gamma2.2} x direction x {8,16}->{8,16} x 1..4 components x {two-image, in-place} x row widths x container {exact, oversized, cropped view}; each image carries every one of the 256/65536 source values in every channel (channel c of pixel p holds (p+7c) mod V), so every value meets every column incl. row ends; plus the 8->16->8 round trip and the 13x13x3 rejection matrix. distinct_nontrivial counts table entries judged".into();
    p.bounds = json!({"row_widths": widths});
    p.assumptions = vec![
        "table tolerance: |out - f(v/max)*max_out| <= 0.5 + max_out*2^-19 (tables are built in f32)".into(),
        "gamma 2.2 8->16->8 round trip is reported informationally, never asserted (the statement claims sRGB only)".into(),
    ];
    p
}
