use crate::{Prop, Tier};

pub mod c15;

pub fn get(id: &str, tier: Tier, seed: u64) -> Option<Prop> {
    Some(match id {
        "C15" => c15::prop(tier, seed),
        _ => return None,
    })
}
