use crate::{Prop, Tier};

pub mod c06;
pub mod c15;
pub mod c16;
pub mod c17;

pub fn get(id: &str, tier: Tier, seed: u64) -> Option<Prop> {
    Some(match id {
        "C06" => c06::prop(tier, seed),
        "C15" => c15::prop(tier, seed),
        "C16" => c16::prop(tier, seed),
        "C17" => c17::prop(tier, seed),
        _ => return None,
    })
}
