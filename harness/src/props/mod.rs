use crate::{Prop, Tier};

pub mod c01;
pub mod c02;
pub mod c03;
pub mod c04;
pub mod c05;
pub mod c06;
pub mod c07;
pub mod c08;
pub mod c09;
pub mod c10;
pub mod c11;
pub mod c12;
pub mod c13;
pub mod c14;
pub mod c15;
pub mod c16;
pub mod c17;
pub mod c18;

pub fn get(id: &str, tier: Tier, seed: u64) -> Option<Prop> {
    Some(match id {
        "C01" => c01::prop(tier, seed),
        "C02" => c02::prop(tier, seed),
        "C03" => c03::prop(tier, seed),
        "C04" => c04::prop(tier, seed),
        "C05" => c05::prop(tier, seed),
        "C06" => c06::prop(tier, seed),
        "C07" => c07::prop(tier, seed),
        "C08" => c08::prop(tier, seed),
        "C09" => c09::prop(tier, seed),
        "C10" => c10::prop(tier, seed),
        "C11" => c11::prop(tier, seed),
        "C12" => c12::prop(tier, seed),
        "C13" => c13::prop(tier, seed),
        "C14" => c14::prop(tier, seed),
        "C15" => c15::prop(tier, seed),
        "C16" => c16::prop(tier, seed),
        "C17" => c17::prop(tier, seed),
        "C18" => c18::prop(tier, seed),
        _ => return None,
    })
}
