//! C14 — splitting a view yields an exact, ordered, non-overlapping tiling.
use crate::explore::*;
use crate::px::*;
use crate::typed::*;
use crate::{Prop, Tier};
use fast_image_resize as fir;
use fir::images::{TypedCroppedImage, TypedCroppedImageMut, TypedImage, TypedImageRef};
use fir::pixels::U16;
use fir::{ImageView, ImageViewMut};
use serde_json::json;
use std::num::NonZeroU32;

/// A view that relies on the trait's *default* split implementations only.
struct DefaultView<'a>(TypedImageRef<'a, U16>);
unsafe impl<'a> ImageView for DefaultView<'a> {
    type Pixel = U16;
    fn width(&self) -> u32 {
        self.0.width()
    }
    fn height(&self) -> u32 {
        self.0.height()
    }
    fn iter_rows(&self, start_row: u32) -> impl Iterator<Item = &[U16]> {
        self.0.iter_rows(start_row)
    }
}
struct DefaultViewMut<'a>(TypedImage<'a, U16>);
unsafe impl<'a> ImageView for DefaultViewMut<'a> {
    type Pixel = U16;
    fn width(&self) -> u32 {
        self.0.width()
    }
    fn height(&self) -> u32 {
        self.0.height()
    }
    fn iter_rows(&self, start_row: u32) -> impl Iterator<Item = &[U16]> {
        self.0.iter_rows(start_row)
    }
}
unsafe impl<'a> ImageViewMut for DefaultViewMut<'a> {
    fn iter_rows_mut(&mut self, start_row: u32) -> impl Iterator<Item = &mut [U16]> {
        self.0.iter_rows_mut(start_row)
    }
}

#[derive(Clone, Copy, Debug, PartialEq)]
struct Rect {
    x: u32,
    y: u32,
    w: u32,
    h: u32,
}

#[derive(Clone, Copy, Debug, PartialEq)]
enum Dir {
    H,
    W,
}

const REF_KINDS: [&str; 7] = [
    "TypedImageRef",
    "TypedImage",
    "TypedCroppedImage::from_ref",
    "TypedCroppedImage::new",
    "TypedCroppedImageMut (as ImageView)",
    "nested TypedCroppedImage",
    "trait-default view",
];
const MUT_KINDS: [&str; 6] = [
    "TypedImage",
    "TypedCroppedImageMut::new",
    "TypedCroppedImageMut::from_ref",
    "nested TypedCroppedImageMut",
    "trait-default view",
    "TypedImage over a buffer with spare rows",
];

trait RefVisitor {
    fn visit<V: ImageView<Pixel = U16>>(&mut self, v: &V);
}
trait MutVisitor {
    fn visit<V: ImageViewMut<Pixel = U16>>(&mut self, v: &mut V);
}

/// Root image is `root` (tags), the view is rectangle `r` of it. Whole-image kinds need r == whole root.
fn with_ref_view(kind: usize, root: &mut Raw, r: Rect, vis: &mut impl RefVisitor) {
    let (rw, rh) = (root.w, root.h);
    match kind {
        0 => {
            let v = TypedImageRef::<U16>::new(rw, rh, as_pixels::<U16>(root.bytes())).unwrap();
            vis.visit(&v)
        }
        1 => {
            let v = TypedImage::<U16>::from_pixels_slice(rw, rh, as_pixels_mut::<U16>(root.buf.as_mut())).unwrap();
            vis.visit(&v)
        }
        2 => {
            let p = TypedImageRef::<U16>::new(rw, rh, as_pixels::<U16>(root.bytes())).unwrap();
            let v = TypedCroppedImage::from_ref(&p, r.x, r.y, r.w, r.h).unwrap();
            vis.visit(&v)
        }
        3 => {
            let p = TypedImageRef::<U16>::new(rw, rh, as_pixels::<U16>(root.bytes())).unwrap();
            let v = TypedCroppedImage::new(p, r.x, r.y, r.w, r.h).unwrap();
            vis.visit(&v)
        }
        4 => {
            let p = TypedImage::<U16>::from_pixels_slice(rw, rh, as_pixels_mut::<U16>(root.buf.as_mut())).unwrap();
            let v = TypedCroppedImageMut::new(p, r.x, r.y, r.w, r.h).unwrap();
            vis.visit(&v)
        }
        5 => {
            // outer crop one pixel larger on the left/top when there is room
            let (ox, oy) = (r.x.min(2), r.y.min(1));
            let p = TypedImageRef::<U16>::new(rw, rh, as_pixels::<U16>(root.bytes())).unwrap();
            let outer = TypedCroppedImage::new(p, r.x - ox, r.y - oy, rw - (r.x - ox), rh - (r.y - oy)).unwrap();
            let v = TypedCroppedImage::new(outer, ox, oy, r.w, r.h).unwrap();
            vis.visit(&v)
        }
        _ => {
            let v = DefaultView(TypedImageRef::<U16>::new(rw, rh, as_pixels::<U16>(root.bytes())).unwrap());
            vis.visit(&v)
        }
    }
}

fn with_mut_view(kind: usize, root: &mut Raw, r: Rect, vis: &mut impl MutVisitor) {
    let (rw, rh) = (root.w, root.h);
    match kind {
        0 => {
            let mut v = TypedImage::<U16>::from_pixels_slice(rw, rh, as_pixels_mut::<U16>(root.buf.as_mut())).unwrap();
            vis.visit(&mut v)
        }
        1 => {
            let p = TypedImage::<U16>::from_pixels_slice(rw, rh, as_pixels_mut::<U16>(root.buf.as_mut())).unwrap();
            let mut v = TypedCroppedImageMut::new(p, r.x, r.y, r.w, r.h).unwrap();
            vis.visit(&mut v)
        }
        2 => {
            let mut p = TypedImage::<U16>::from_pixels_slice(rw, rh, as_pixels_mut::<U16>(root.buf.as_mut())).unwrap();
            let mut v = TypedCroppedImageMut::from_ref(&mut p, r.x, r.y, r.w, r.h).unwrap();
            vis.visit(&mut v)
        }
        3 => {
            let (ox, oy) = (r.x.min(2), r.y.min(1));
            let p = TypedImage::<U16>::from_pixels_slice(rw, rh, as_pixels_mut::<U16>(root.buf.as_mut())).unwrap();
            let outer = TypedCroppedImageMut::new(p, r.x - ox, r.y - oy, rw - (r.x - ox), rh - (r.y - oy)).unwrap();
            let mut v = TypedCroppedImageMut::new(outer, ox, oy, r.w, r.h).unwrap();
            vis.visit(&mut v)
        }
        5 => {
            // the image is the top r.h rows of the root; the rows below are spare capacity of its buffer
            assert!(r.x == 0 && r.y == 0 && r.w == rw);
            let mut v = TypedImage::<U16>::from_pixels_slice(rw, r.h, as_pixels_mut::<U16>(root.buf.as_mut())).unwrap();
            vis.visit(&mut v)
        }
        _ => {
            let mut v = DefaultViewMut(TypedImage::<U16>::from_pixels_slice(rw, rh, as_pixels_mut::<U16>(root.buf.as_mut())).unwrap());
            vis.visit(&mut v)
        }
    }
}

fn whole_only_ref(kind: usize) -> bool {
    matches!(kind, 0 | 1 | 6)
}
fn whole_only_mut(kind: usize) -> bool {
    matches!(kind, 0 | 4)
}

fn tag(root_w: u32, x: u32, y: u32) -> u16 {
    (y * root_w + x + 1) as u16
}

/// Rectangle-model verdict for one split request.
fn model(extent: u32, start: u32, size: u32, parts: u32) -> Option<Vec<(u32, u32)>> {
    if parts > size || size > extent || start > extent - size {
        return None;
    }
    let step = size / parts;
    let rem = size % parts;
    // which parts get the extra row is not prescribed; the checker only needs totals and order,
    // but to localise pixels we use the observed sizes (see `verify_parts`)
    let _ = (step, rem);
    Some(vec![])
}

/// Read a part and check that it exposes exactly rectangle `want` of the root.
fn part_matches<V: ImageView<Pixel = U16>>(v: &V, want: Rect, root_w: u32) -> Option<String> {
    if v.width() != want.w || v.height() != want.h {
        return Some(format!("part reports {}x{}, expected {}x{}", v.width(), v.height(), want.w, want.h));
    }
    let mut rows = 0u32;
    for (ry, row) in v.iter_rows(0).enumerate() {
        if row.len() != want.w as usize {
            return Some(format!("row of {} pixels in a part of width {}", row.len(), want.w));
        }
        for (rx, px) in row.iter().enumerate() {
            let t = tag(root_w, want.x + rx as u32, want.y + ry as u32);
            if px.0 != t {
                return Some(format!("pixel ({},{}) of the part is tag {} but the band pixel there is tag {}", rx, ry, px.0, t));
            }
        }
        rows += 1;
    }
    if rows != want.h {
        return Some(format!("{} rows in a part of height {}", rows, want.h));
    }
    None
}

struct Triples {
    starts: Vec<u32>,
    sizes: Vec<u32>,
    parts: Vec<u32>,
}

fn triples(b: u32) -> Triples {
    let mut starts: Vec<u32> = (0..=b + 1).collect();
    starts.extend([1 << 31, u32::MAX - 1, u32::MAX]);
    let mut sizes: Vec<u32> = (1..=b + 1).collect();
    sizes.extend([1 << 31, u32::MAX]);
    let mut parts: Vec<u32> = (1..=b + 2).collect();
    parts.extend([u32::MAX]);
    Triples { starts, sizes, parts }
}

fn sub_triples(extent: u32) -> Vec<(u32, u32, u32)> {
    let mut v = vec![];
    for start in [0u32, 1] {
        for size in [1u32, extent.saturating_sub(1).max(1), extent, extent + 1] {
            for parts in [1u32, 2, size, size + 1] {
                if !v.contains(&(start, size, parts)) {
                    v.push((start, size, parts));
                }
            }
        }
    }
    v
}

struct Stats<'c> {
    ctx: &'c mut Ctx,
    kind_name: &'static str,
    root_w: u32,
}

impl<'c> Stats<'c> {
    fn fail(&mut self, what: &str, level: u32, dir: Dir, view: Rect, start: u32, size: u32, parts: u32, msg: String) {
        let k = self.kind_name;
        self.ctx.violation(format!("C14|{}|{}", k, what), || {
            json!({"level": level, "direction": format!("{:?}", dir), "view_in_root": format!("{:?}", view), "start": start, "size": size, "parts": parts, "what": msg})
        });
    }
}

/// Verify the parts returned for one request on a view occupying `view` of the root.
/// Returns the rectangles of the parts (for the second level).
fn verify_ref_parts<V: ImageView<Pixel = U16>>(
    st: &mut Stats,
    level: u32,
    dir: Dir,
    view: Rect,
    start: u32,
    size: u32,
    parts: u32,
    got: &Option<Vec<V>>,
) -> Vec<Rect> {
    let extent = if dir == Dir::H { view.h } else { view.w };
    let want_some = model(extent, start, size, parts).is_some();
    let mut rects = vec![];
    match got {
        None => {
            if want_some {
                st.fail("returned None for a valid request", level, dir, view, start, size, parts, String::new());
            }
        }
        Some(v) => {
            if !want_some {
                st.fail("returned parts for an invalid request", level, dir, view, start, size, parts, format!("{} parts", v.len()));
                return rects;
            }
            if v.len() != parts as usize {
                st.fail("wrong number of parts", level, dir, view, start, size, parts, format!("{} parts", v.len()));
                return rects;
            }
            let mut off = 0u32;
            let (mut mn, mut mx) = (u32::MAX, 0u32);
            for (k, part) in v.iter().enumerate() {
                let len = if dir == Dir::H { part.height() } else { part.width() };
                mn = mn.min(len);
                mx = mx.max(len);
                if off.checked_add(len).map_or(true, |e| e > size) {
                    st.fail("parts exceed the requested band", level, dir, view, start, size, parts, format!("part {} has extent {} at offset {}", k, len, off));
                    return rects;
                }
                let want = if dir == Dir::H {
                    Rect { x: view.x, y: view.y + start + off, w: view.w, h: len }
                } else {
                    Rect { x: view.x + start + off, y: view.y, w: len, h: view.h }
                };
                if let Some(msg) = part_matches(part, want, st.root_w) {
                    st.fail("part does not expose its rectangle of the band", level, dir, view, start, size, parts, format!("part {}: {}", k, msg));
                    return rects;
                }
                rects.push(want);
                off += len;
            }
            if off != size {
                st.fail("parts do not cover the band", level, dir, view, start, size, parts, format!("extents sum to {}", off));
            }
            if mx - mn > 1 {
                st.fail("part sizes differ by more than one", level, dir, view, start, size, parts, format!("min {} max {}", mn, mx));
            }
        }
    }
    rects
}

fn nz(v: u32) -> NonZeroU32 {
    NonZeroU32::new(v).unwrap()
}

struct RefCheck<'c, 't> {
    st: Stats<'c>,
    view: Rect,
    tr: &'t Triples,
    second_level: bool,
}

impl<'c, 't> RefVisitor for RefCheck<'c, 't> {
    fn visit<V: ImageView<Pixel = U16>>(&mut self, v: &V) {
        let view = self.view;
        for dir in [Dir::H, Dir::W] {
            for &start in self.tr.starts.iter() {
                for &size in self.tr.sizes.iter() {
                    for &parts in self.tr.parts.iter() {
                        self.st.ctx.ops += 1;
                        self.st.ctx.nontrivial += 1;
                        macro_rules! level2 {
                            ($got:expr) => {{
                                let got = $got;
                                let rects = verify_ref_parts(&mut self.st, 1, dir, view, start, size, parts, &got);
                                self.st.ctx.outcome(mix(got.is_some() as u64, mix(rects.len() as u64, mix(start as u64, size as u64))));
                                if self.second_level {
                                    if let Some(ps) = got.as_ref() {
                                        if rects.len() == ps.len() {
                                            for (part, prect) in ps.iter().zip(rects.iter()) {
                                                for d2 in [Dir::H, Dir::W] {
                                                    let ext = if d2 == Dir::H { prect.h } else { prect.w };
                                                    for (s2, z2, p2) in sub_triples(ext) {
                                                        self.st.ctx.ops += 1;
                                                        if d2 == Dir::H {
                                                            let g2 = part.split_by_height(s2, nz(z2), nz(p2));
                                                            verify_ref_parts(&mut self.st, 2, d2, *prect, s2, z2, p2, &g2);
                                                        } else {
                                                            let g2 = part.split_by_width(s2, nz(z2), nz(p2));
                                                            verify_ref_parts(&mut self.st, 2, d2, *prect, s2, z2, p2, &g2);
                                                        }
                                                    }
                                                }
                                            }
                                        }
                                    }
                                }
                            }};
                        }
                        if dir == Dir::H {
                            level2!(v.split_by_height(start, nz(size), nz(parts)))
                        } else {
                            level2!(v.split_by_width(start, nz(size), nz(parts)))
                        }
                    }
                }
            }
        }
    }
}

// ---- mutable ---------------------------------------------------------------------------------

const SENTINEL: u16 = 0xEEEE;

struct MutOne {
    dir: Dir,
    start: u32,
    size: u32,
    parts: u32,
    second: Option<(Dir, u32, u32, u32)>,
    /// result: None = returned None; Some(extents of the parts) otherwise
    result: Option<Vec<u32>>,
    second_result: Vec<Option<Vec<u32>>>,
    err: Option<String>,
}

fn paint<V: ImageViewMut<Pixel = U16>>(part: &mut V, value: u16, want_w: u32) -> Option<String> {
    let mut rows = 0;
    let h = part.height();
    for row in part.iter_rows_mut(0) {
        if row.len() != want_w as usize {
            return Some(format!("mutable row of {} pixels, part width {}", row.len(), want_w));
        }
        for px in row.iter_mut() {
            px.0 = value;
        }
        rows += 1;
    }
    if rows != h {
        return Some(format!("{} mutable rows in a part of height {}", rows, h));
    }
    None
}

impl MutVisitor for MutOne {
    fn visit<V: ImageViewMut<Pixel = U16>>(&mut self, v: &mut V) {
        macro_rules! run {
            ($got:expr) => {{
                match $got {
                    None => self.result = None,
                    Some(mut ps) => {
                        let mut ext = vec![];
                        for (k, part) in ps.iter_mut().enumerate() {
                            ext.push(if self.dir == Dir::H { part.height() } else { part.width() });
                            let w = part.width();
                            match self.second {
                                None => {
                                    if let Some(e) = paint(part, k as u16 + 1, w) {
                                        self.err = Some(e);
                                    }
                                }
                                Some((d2, s2, z2, p2)) => {
                                    // first paint the whole part with its index, then the sub-parts on top
                                    if let Some(e) = paint(part, k as u16 + 1, w) {
                                        self.err = Some(e);
                                    }
                                    macro_rules! sub {
                                        ($g2:expr) => {{
                                            match $g2 {
                                                None => self.second_result.push(None),
                                                Some(mut qs) => {
                                                    let mut e2 = vec![];
                                                    for (j, q) in qs.iter_mut().enumerate() {
                                                        e2.push(if d2 == Dir::H { q.height() } else { q.width() });
                                                        let qw = q.width();
                                                        if let Some(e) = paint(q, ((k as u16 + 1) << 8) | (j as u16 + 1), qw) {
                                                            self.err = Some(e);
                                                        }
                                                    }
                                                    self.second_result.push(Some(e2));
                                                }
                                            }
                                        }};
                                    }
                                    if d2 == Dir::H {
                                        sub!(part.split_by_height_mut(s2, nz(z2), nz(p2)))
                                    } else {
                                        sub!(part.split_by_width_mut(s2, nz(z2), nz(p2)))
                                    }
                                }
                            }
                        }
                        self.result = Some(ext);
                    }
                }
            }};
        }
        if self.dir == Dir::H {
            run!(v.split_by_height_mut(self.start, nz(self.size), nz(self.parts)))
        } else {
            run!(v.split_by_width_mut(self.start, nz(self.size), nz(self.parts)))
        }
    }
}

/// One mutable request: build the view over a sentinel-filled root, split, paint, inspect the root.
#[allow(clippy::too_many_arguments)]
fn check_mut_request(
    ctx: &mut Ctx,
    kind: usize,
    root_dims: (u32, u32),
    view: Rect,
    dir: Dir,
    start: u32,
    size: u32,
    parts: u32,
    second: Option<(Dir, u32, u32, u32)>,
) {
    let mut root = Raw::from_fn(PT::U16, root_dims.0, root_dims.1, |_, _, _| SENTINEL as f64);
    let mut one = MutOne { dir, start, size, parts, second, result: None, second_result: vec![], err: None };
    with_mut_view(kind, &mut root, view, &mut one);
    ctx.ops += 1;
    let name = MUT_KINDS[kind];
    let mut fail = |what: &str, msg: String| {
        ctx.violation(format!("C14|mut {}|{}", name, what), || {
            json!({"direction": format!("{:?}", dir), "view_in_root": format!("{:?}", view), "root": [root_dims.0, root_dims.1], "start": start, "size": size, "parts": parts, "second_level": format!("{:?}", second), "what": msg})
        });
    };
    if let Some(e) = one.err.take() {
        fail("mutable part rows are wrong", e);
        return;
    }
    let extent = if dir == Dir::H { view.h } else { view.w };
    let valid = !(parts > size || size > extent || start > extent - size);
    // expected paint map
    let mut expect = vec![SENTINEL; (root_dims.0 * root_dims.1) as usize];
    match (&one.result, valid) {
        (None, false) => {}
        (None, true) => {
            fail("returned None for a valid request", String::new());
            return;
        }
        (Some(e), false) => {
            fail("returned parts for an invalid request", format!("{} parts", e.len()));
            return;
        }
        (Some(ext), true) => {
            if ext.len() != parts as usize {
                fail("wrong number of parts", format!("{}", ext.len()));
                return;
            }
            let total: u64 = ext.iter().map(|e| *e as u64).sum();
            if total != size as u64 {
                fail("parts do not cover the band", format!("extents {:?}", ext));
                return;
            }
            let (mn, mx) = (ext.iter().min().unwrap(), ext.iter().max().unwrap());
            if mx - mn > 1 {
                fail("part sizes differ by more than one", format!("extents {:?}", ext));
            }
            let mut off = 0u32;
            for (k, &len) in ext.iter().enumerate() {
                let r = if dir == Dir::H {
                    Rect { x: view.x, y: view.y + start + off, w: view.w, h: len }
                } else {
                    Rect { x: view.x + start + off, y: view.y, w: len, h: view.h }
                };
                for y in r.y..r.y + r.h {
                    for x in r.x..r.x + r.w {
                        expect[(y * root_dims.0 + x) as usize] = k as u16 + 1;
                    }
                }
                if let Some((d2, s2, z2, p2)) = second {
                    let ext2 = if d2 == Dir::H { r.h } else { r.w };
                    let valid2 = !(p2 > z2 || z2 > ext2 || s2 > ext2 - z2);
                    match (one.second_result.get(k), valid2) {
                        (Some(None), false) => {}
                        (Some(None), true) => {
                            fail("second-level split returned None for a valid request", format!("part {}", k));
                            return;
                        }
                        (Some(Some(_)), false) => {
                            fail("second-level split returned parts for an invalid request", format!("part {}", k));
                            return;
                        }
                        (Some(Some(e2)), true) => {
                            if e2.len() != p2 as usize || e2.iter().map(|e| *e as u64).sum::<u64>() != z2 as u64 {
                                fail("second-level parts do not cover the band", format!("part {} extents {:?}", k, e2));
                                return;
                            }
                            let mut o2 = 0u32;
                            for (j, &l2) in e2.iter().enumerate() {
                                let q = if d2 == Dir::H {
                                    Rect { x: r.x, y: r.y + s2 + o2, w: r.w, h: l2 }
                                } else {
                                    Rect { x: r.x + s2 + o2, y: r.y, w: l2, h: r.h }
                                };
                                for y in q.y..q.y + q.h {
                                    for x in q.x..q.x + q.w {
                                        expect[(y * root_dims.0 + x) as usize] = ((k as u16 + 1) << 8) | (j as u16 + 1);
                                    }
                                }
                                o2 += l2;
                            }
                        }
                        (None, _) => {
                            fail("second-level result missing", format!("part {}", k));
                            return;
                        }
                    }
                }
                off += len;
            }
        }
    }
    let got: Vec<u16> = as_pixels::<U16>(root.bytes()).iter().map(|p| p.0).collect();
    if got != expect {
        let i = got.iter().zip(expect.iter()).position(|(a, b)| a != b).unwrap();
        let (x, y) = (i as u32 % root_dims.0, i as u32 / root_dims.0);
        let outside = expect[i] == SENTINEL;
        fail(
            if outside { "a part wrote outside the requested band" } else { "pixels of the band were written by the wrong part (aliasing / gap)" },
            format!("root pixel ({},{}) holds {:#x}, expected {:#x}", x, y, got[i], expect[i]),
        );
    }
    ctx.outcome(mix(fnv(root.bytes()), one.result.is_some() as u64));
}

/// Mutable split whose parts are then split *immutably* (the parts are `ImageViewMut`, hence also
/// `ImageView`): the root carries position tags, nothing is painted, every immutable sub-part must
/// read exactly the tags of its rectangle.
struct MutThenRef {
    dir: Dir,
    start: u32,
    size: u32,
    parts: u32,
    second: (Dir, u32, u32, u32),
    root_w: u32,
    view: Rect,
    first_ok: bool,
    checked: u64,
    err: Option<String>,
}

impl MutVisitor for MutThenRef {
    fn visit<V: ImageViewMut<Pixel = U16>>(&mut self, v: &mut V) {
        let (d2, s2, z2, p2) = self.second;
        macro_rules! run {
            ($got:expr) => {{
                if let Some(mut ps) = $got {
                    self.first_ok = true;
                    let mut off = 0u32;
                    for (k, part) in ps.iter_mut().enumerate() {
                        let len = if self.dir == Dir::H { part.height() } else { part.width() };
                        let r = if self.dir == Dir::H {
                            Rect { x: self.view.x, y: self.view.y + self.start + off, w: self.view.w, h: len }
                        } else {
                            Rect { x: self.view.x + self.start + off, y: self.view.y, w: len, h: self.view.h }
                        };
                        off += len;
                        let ext2 = if d2 == Dir::H { r.h } else { r.w };
                        let valid2 = !(p2 > z2 || z2 > ext2 || s2 > ext2 - z2);
                        macro_rules! sub {
                            ($g2:expr) => {{
                                match ($g2, valid2) {
                                    (None, false) => {}
                                    (None, true) => self.err = Some(format!("immutable split of mutable part {} returned None for a valid request", k)),
                                    (Some(_), false) => self.err = Some(format!("immutable split of mutable part {} returned parts for an invalid request", k)),
                                    (Some(qs), true) => {
                                        if qs.len() != p2 as usize {
                                            self.err = Some(format!("immutable split of mutable part {}: {} parts instead of {}", k, qs.len(), p2));
                                        }
                                        let mut o2 = 0u32;
                                        for (j, q) in qs.iter().enumerate() {
                                            let l2 = if d2 == Dir::H { q.height() } else { q.width() };
                                            let qr = if d2 == Dir::H { Rect { x: r.x, y: r.y + s2 + o2, w: r.w, h: l2 } } else { Rect { x: r.x + s2 + o2, y: r.y, w: l2, h: r.h } };
                                            o2 += l2;
                                            if (q.width(), q.height()) != (qr.w, qr.h) {
                                                self.err = Some(format!("sub-part {}.{} is {}x{}, expected {}x{}", k, j, q.width(), q.height(), qr.w, qr.h));
                                                continue;
                                            }
                                            let mut rows = 0u32;
                                            for (yy, row) in q.iter_rows(0).enumerate() {
                                                rows += 1;
                                                if row.len() != qr.w as usize {
                                                    self.err = Some(format!("sub-part {}.{} row of {} pixels, width {}", k, j, row.len(), qr.w));
                                                    break;
                                                }
                                                for (xx, px) in row.iter().enumerate() {
                                                    let want = ((qr.y + yy as u32) * self.root_w + qr.x + xx as u32 + 1) as u16;
                                                    if px.0 != want {
                                                        self.err = Some(format!("sub-part {}.{} pixel ({},{}) reads tag {} instead of {} (root pixel ({},{}))", k, j, xx, yy, px.0, want, qr.x + xx as u32, qr.y + yy as u32));
                                                    }
                                                    self.checked += 1;
                                                }
                                            }
                                            if rows != qr.h {
                                                self.err = Some(format!("sub-part {}.{} yields {} rows, height {}", k, j, rows, qr.h));
                                            }
                                        }
                                        if o2 != z2 {
                                            self.err = Some(format!("immutable sub-parts of mutable part {} cover {} of {}", k, o2, z2));
                                        }
                                    }
                                }
                            }};
                        }
                        if d2 == Dir::H {
                            sub!(part.split_by_height(s2, nz(z2), nz(p2)))
                        } else {
                            sub!(part.split_by_width(s2, nz(z2), nz(p2)))
                        }
                    }
                }
            }};
        }
        if self.dir == Dir::H {
            run!(v.split_by_height_mut(self.start, nz(self.size), nz(self.parts)))
        } else {
            run!(v.split_by_width_mut(self.start, nz(self.size), nz(self.parts)))
        }
    }
}

#[allow(clippy::too_many_arguments)]
fn check_mut_then_ref(ctx: &mut Ctx, kind: usize, root_dims: (u32, u32), view: Rect, dir: Dir, start: u32, size: u32, parts: u32, second: (Dir, u32, u32, u32)) {
    let mut root = Raw::from_fn(PT::U16, root_dims.0, root_dims.1, |x, y, _| (y * root_dims.0 + x + 1) as f64);
    let before = root.bytes().to_vec();
    let mut one = MutThenRef { dir, start, size, parts, second, root_w: root_dims.0, view, first_ok: false, checked: 0, err: None };
    with_mut_view(kind, &mut root, view, &mut one);
    ctx.ops += 1;
    ctx.traces += one.checked;
    let name = MUT_KINDS[kind];
    let det = |msg: String| json!({"direction": format!("{:?}", dir), "view_in_root": format!("{:?}", view), "root": [root_dims.0, root_dims.1], "start": start, "size": size, "parts": parts, "second_level_immutable": format!("{:?}", second), "what": msg});
    if let Some(e) = one.err.take() {
        ctx.violation(format!("C14|mut {}|immutable split of a mutable part is not the expected tiling", name), || det(e));
    }
    if !one.first_ok {
        ctx.violation(format!("C14|mut {}|returned None for a valid request", name), || det(String::new()));
    }
    if root.bytes() != &before[..] {
        ctx.violation(format!("C14|mut {}|splitting modified the image", name), || det(String::new()));
    }
    ctx.outcome(mix(one.checked, fnv(root.bytes())));
}

pub fn prop(tier: Tier, _seed: u64) -> Prop {
    let mut p = Prop::new("C14");
    p.both_profiles = true;
    let b: u32 = tier.pick(8, 20);
    let b2: u32 = tier.pick(5, 8); // second level explored for views up to b2 x b2

    // ---- immutable views
    let dims = vec![7u64, 2, b as u64, b as u64];
    let d1 = dims.clone();
    p.spaces.push(Space::new("immutable views: kind x margin x (w,h) x all triples x 2 directions (+ split-of-split)", product(&dims), move |idx, ctx| {
        let mut d = [0usize; 4];
        decode(idx, &d1, &mut d);
        let (kind, margin, w, h) = (d[0], d[1] as u32 * 2, d[2] as u32 + 1, d[3] as u32 + 1);
        if whole_only_ref(kind) && margin != 0 {
            return;
        }
        // asymmetric placement: left != top and different right/bottom margins
        let (ml, mt, mr, mb) = if margin == 0 { (0, 0, 0, 0) } else { (margin + 1 + (w + h) % 2, margin - 1, 1 + h % 3, 2 + w % 2) };
        let (rw, rh) = (w + ml + mr, h + mt + mb);
        let view = Rect { x: ml, y: mt, w, h };
        let second = w <= b2 && h <= b2;
        ctx.sample(|| json!({"view_kind": REF_KINDS[kind], "root": [rw, rh], "view": format!("{:?}", view), "triples": "start 0..B+1 ∪ {2^31,MAX-1,MAX}, size 1..B+1 ∪ {2^31,MAX}, parts 1..B+2 ∪ {MAX}", "second_level": second}));
        let mut root = Raw::from_fn(PT::U16, rw, rh, |x, y, _| tag(rw, x, y) as f64);
        let tr = triples(b);
        let mut chk = RefCheck { st: Stats { ctx, kind_name: REF_KINDS[kind], root_w: rw }, view, tr: &tr, second_level: second };
        with_ref_view(kind, &mut root, view, &mut chk);
        ctx.class(mix(kind as u64, mix(margin as u64, (w.min(3) * 4 + h.min(3)) as u64)));
    }).isolated());

    // ---- mutable views, first level: every triple
    let dimsm = vec![6u64, 2, b as u64, b as u64, 2];
    let d2 = dimsm.clone();
    p.spaces.push(Space::new("mutable views: kind x margin x (w,h) x direction x all triples (paint + inspect root)", product(&dimsm), move |idx, ctx| {
        let mut d = [0usize; 5];
        decode(idx, &d2, &mut d);
        let (kind, margin, w, h, dir) = (d[0], d[1] as u32 * 2, d[2] as u32 + 1, d[3] as u32 + 1, if d[4] == 0 { Dir::H } else { Dir::W });
        if whole_only_mut(kind) && margin != 0 {
            return;
        }
        let (ml, mt, mr, mb) = if kind == 5 { (0, 0, 0, margin + 1 + h % 2) } else if margin == 0 { (0, 0, 0, 0) } else { (margin + 1 + (w + h) % 2, margin - 1, 1 + h % 3, 2 + w % 2) };
        let (rw, rh) = (w + ml + mr, h + mt + mb);
        let view = Rect { x: ml, y: mt, w, h };
        ctx.sample(|| json!({"view_kind": MUT_KINDS[kind], "root": [rw, rh], "view": format!("{:?}", view), "direction": format!("{:?}", dir)}));
        let extent = if dir == Dir::H { h } else { w };
        let tr = triples(b);
        for &start in tr.starts.iter() {
            for &size in tr.sizes.iter() {
                for &parts in tr.parts.iter() {
                    // beyond extent+2 every request is invalid for the same reason: keep a few
                    if size > extent + 2 && size < 1 << 31 && size != b + 1 {
                        continue;
                    }
                    if parts > extent + 2 && parts != u32::MAX && parts != b + 2 {
                        continue;
                    }
                    check_mut_request(ctx, kind, (rw, rh), view, dir, start, size, parts, None);
                    ctx.nontrivial += 1;
                }
            }
        }
        ctx.class(mix(kind as u64 + 100, mix(margin as u64, (w.min(3) * 4 + h.min(3)) as u64 * 2 + d[4] as u64)));
    }).isolated());

    // ---- mutable split-of-split
    let dims3 = vec![6u64, 2, b2 as u64, b2 as u64, 2];
    let d3 = dims3.clone();
    p.spaces.push(Space::new("mutable split-of-split: kind x margin x (w,h)<=B2 x direction x valid triples x sub-triples", product(&dims3), move |idx, ctx| {
        let mut d = [0usize; 5];
        decode(idx, &d3, &mut d);
        let (kind, margin, w, h, dir) = (d[0], d[1] as u32 * 2, d[2] as u32 + 1, d[3] as u32 + 1, if d[4] == 0 { Dir::H } else { Dir::W });
        if whole_only_mut(kind) && margin != 0 {
            return;
        }
        let (ml, mt, mr, mb) = if kind == 5 { (0, 0, 0, margin + 1 + h % 2) } else if margin == 0 { (0, 0, 0, 0) } else { (margin + 1 + (w + h) % 2, margin - 1, 1 + h % 3, 2 + w % 2) };
        let (rw, rh) = (w + ml + mr, h + mt + mb);
        let view = Rect { x: ml, y: mt, w, h };
        ctx.sample(|| json!({"view_kind": MUT_KINDS[kind], "root": [rw, rh], "view": format!("{:?}", view), "direction": format!("{:?}", dir), "second_level": "both directions, sub-triples"}));
        let extent = if dir == Dir::H { h } else { w };
        for start in 0..extent {
            for size in 1..=extent - start {
                for parts in 1..=size {
                    for d2 in [Dir::H, Dir::W] {
                        let other = if d2 == Dir::H { if dir == Dir::H { size / parts } else { h } } else if dir == Dir::W { size / parts } else { w };
                        for (s2, z2, p2) in sub_triples(other.max(1)) {
                            check_mut_request(ctx, kind, (rw, rh), view, dir, start, size, parts, Some((d2, s2, z2, p2)));
                            // the same request with an *immutable* second level
                            check_mut_then_ref(ctx, kind, (rw, rh), view, dir, start, size, parts, (d2, s2, z2, p2));
                            ctx.nontrivial += 1;
                        }
                    }
                }
            }
        }
        ctx.class(mix(kind as u64 + 200, mix(margin as u64, (w.min(3) * 4 + h.min(3)) as u64 * 2 + d[4] as u64)));
    }).isolated());

    p.rule = "view kind (7 immutable, 6 mutable incl. nested crops, a TypedImage whose buffer has spare rows, and a harness view that uses only the trait defaults) x parent margins {0,2} x view sizes (1..B)^2 x both directions x every (start,size,parts) incl. invalid ones and values near u32::MAX; immutable parts are read back against the rectangle model (tags), mutable parts paint their index and the root image is compared with the expected index map (sentinel outside); second level: every part is split again in both directions (sub-triples) for views up to B2 x B2 — mutable parts both mutably (paint) and immutably (position tags read back)".into();
    p.bounds = json!({"B": b, "B2": b2});
    p.assumptions = vec!["which parts receive the remainder rows is not prescribed and not checked (only sizes differing by at most one, order and contiguity)".into()];
    p
}
