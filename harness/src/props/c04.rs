//! C04 — geometry validation accepts exactly the regions that lie inside the image.
use crate::alg::*;
use crate::explore::*;
use crate::px::*;
use crate::typed::*;
use crate::with_pt;
use crate::{Prop, Tier};
use fast_image_resize as fir;
use fir::images::{CroppedImage, CroppedImageMut, Image, ImageRef, TypedCroppedImage, TypedCroppedImageMut, TypedImage, TypedImageRef};
use fir::{ImageView, IntoImageView, ResizeOptions};
use serde_json::json;

fn u32_alphabet(tier: Tier) -> Vec<u32> {
    let mut a: Vec<u32> = match tier {
        Tier::Quick => vec![0, 1, 2, 3, 4, 5, 7],
        Tier::Thorough => (0..=8).collect(),
    };
    a.extend([(1u32 << 31) - 1, 1 << 31, (1 << 31) + 1]);
    match tier {
        Tier::Quick => a.extend([u32::MAX - 3, u32::MAX - 1, u32::MAX]),
        Tier::Thorough => a.extend(u32::MAX - 8..=u32::MAX),
    }
    a
}

#[derive(Clone, Copy, Debug, PartialEq)]
enum Want {
    Accept,
    Reject,
    DontCare,
}

fn want_u32(w: u32, h: u32, l: u32, t: u32, cw: u32, ch: u32) -> Want {
    let inside = (l as u64 + cw as u64) <= w as u64 && (t as u64 + ch as u64) <= h as u64;
    if !inside {
        return Want::Reject;
    }
    let degenerate = cw == 0 || ch == 0 || l >= w || t >= h;
    if degenerate {
        Want::DontCare
    } else {
        Want::Accept
    }
}

const CTORS: [&str; 6] = [
    "CroppedImage::new",
    "CroppedImageMut::new",
    "TypedCroppedImage::new",
    "TypedCroppedImage::from_ref",
    "TypedCroppedImageMut::new",
    "TypedCroppedImageMut::from_ref",
];

/// Build the view with constructor `ctor` over a tag image and, if accepted and expected to be
/// valid, read it back. Returns (accepted, Option<failure text>).
fn try_view(ctor: usize, parent: &mut Raw, l: u32, t: u32, cw: u32, ch: u32, inspect: bool) -> (bool, Option<String>) {
    let (pw, ph) = (parent.w, parent.h);
    let expect: Vec<u8> = if inspect {
        let mut v = vec![];
        for y in 0..ch {
            for x in 0..cw {
                v.extend_from_slice(parent.pixel_bytes(l + x, t + y));
            }
        }
        v
    } else {
        vec![]
    };
    fn read_view<V: ImageView>(v: &V, cw: u32, ch: u32, expect: &[u8]) -> Option<String> {
        if v.width() != cw || v.height() != ch {
            return Some(format!("view reports {}x{} for a {}x{} request", v.width(), v.height(), cw, ch));
        }
        let mut got: Vec<u8> = vec![];
        let mut rows = 0;
        for row in v.iter_rows(0) {
            if row.len() != cw as usize {
                return Some(format!("row of {} pixels in a view of width {}", row.len(), cw));
            }
            got.extend_from_slice(pixels_as_bytes_any(row));
            rows += 1;
        }
        if rows != ch {
            return Some(format!("{} rows in a view of height {}", rows, ch));
        }
        if got != expect {
            return Some("pixels read through the view are not the rectangle of the parent".into());
        }
        None
    }
    match ctor {
        0 => {
            let img = parent.image_ref();
            match CroppedImage::new(&img, l, t, cw, ch) {
                Ok(v) => {
                    if !inspect {
                        return (true, None);
                    }
                    if IntoImageView::width(&v) != cw || IntoImageView::height(&v) != ch {
                        return (true, Some("dynamic view reports wrong size".into()));
                    }
                    let f = with_pt!(parent.pt, P => { v.image_view::<P>().map(|tv| read_view(&tv, cw, ch, &expect)) });
                    (true, f.flatten())
                }
                Err(_) => (false, None),
            }
        }
        1 => {
            let pt = parent.pt;
            let mut img = parent.image_mut();
            match CroppedImageMut::new(&mut img, l, t, cw, ch) {
                Ok(v) => {
                    if !inspect {
                        return (true, None);
                    }
                    let f = with_pt!(pt, P => { v.image_view::<P>().map(|tv| read_view(&tv, cw, ch, &expect)) });
                    (true, f.flatten())
                }
                Err(_) => (false, None),
            }
        }
        _ => {
            with_pt!(parent.pt, P => {
                match ctor {
                    2 => {
                        let tr = TypedImageRef::<P>::new(pw, ph, as_pixels::<P>(parent.bytes())).unwrap();
                        match TypedCroppedImage::new(tr, l, t, cw, ch) {
                            Ok(v) => (true, if inspect { read_view(&v, cw, ch, &expect) } else { None }),
                            Err(_) => (false, None),
                        }
                    }
                    3 => {
                        let tr = TypedImageRef::<P>::new(pw, ph, as_pixels::<P>(parent.bytes())).unwrap();
                        let r = match TypedCroppedImage::from_ref(&tr, l, t, cw, ch) {
                            Ok(v) => (true, if inspect { read_view(&v, cw, ch, &expect) } else { None }),
                            Err(_) => (false, None),
                        };
                        r
                    }
                    4 => {
                        let ti = TypedImage::<P>::from_pixels_slice(pw, ph, as_pixels_mut::<P>(parent.buf.as_mut())).unwrap();
                        match TypedCroppedImageMut::new(ti, l, t, cw, ch) {
                            Ok(v) => (true, if inspect { read_view(&v, cw, ch, &expect) } else { None }),
                            Err(_) => (false, None),
                        }
                    }
                    _ => {
                        let mut ti = TypedImage::<P>::from_pixels_slice(pw, ph, as_pixels_mut::<P>(parent.buf.as_mut())).unwrap();
                        let r = match TypedCroppedImageMut::from_ref(&mut ti, l, t, cw, ch) {
                            Ok(v) => (true, if inspect { read_view(&v, cw, ch, &expect) } else { None }),
                            Err(_) => (false, None),
                        };
                        r
                    }
                }
            })
        }
    }
}

fn pixels_as_bytes_any<T>(px: &[T]) -> &[u8] {
    unsafe { std::slice::from_raw_parts(px.as_ptr() as *const u8, std::mem::size_of_val(px)) }
}

// ---- f64 crop boxes -------------------------------------------------------------------------

/// exact test  a + b > limit  for finite doubles (TwoSum)
fn sum_exceeds(a: f64, b: f64, limit: f64) -> bool {
    let s = a + b;
    let bb = s - a;
    let err = (a - (s - bb)) + (b - bb);
    s > limit || (s == limit && err > 0.0)
}

/// exact amount by which a+b exceeds limit is below one ulp of limit
fn barely_exceeds(a: f64, b: f64, limit: f64) -> bool {
    let s = a + b;
    s <= limit
}

fn want_f64(w: u32, h: u32, l: f64, t: f64, cw: f64, ch: f64) -> Want {
    let all = [l, t, cw, ch];
    if all.iter().any(|v| !v.is_finite()) {
        // a zero-sized box returns early ("do nothing"): degenerate, not pinned by the statement
        if (cw == 0.0 || ch == 0.0) && true {
            return Want::DontCare;
        }
        return Want::Reject;
    }
    if cw == 0.0 || ch == 0.0 {
        return Want::DontCare;
    }
    if l < 0.0 || t < 0.0 || cw < 0.0 || ch < 0.0 {
        return Want::Reject;
    }
    let (wf, hf) = (w as f64, h as f64);
    let ex = sum_exceeds(l, cw, wf);
    let ey = sum_exceeds(t, ch, hf);
    if ex || ey {
        // exceeds in exact arithmetic; if the rounded f64 sum still lands on the edge it is the
        // documented don't-care (the crate must form this sum in f64)
        let bx = !ex || barely_exceeds(l, cw, wf);
        let by = !ey || barely_exceeds(t, ch, hf);
        if bx && by && l < wf && t < hf {
            return Want::DontCare;
        }
        return Want::Reject;
    }
    if l >= wf || t >= hf {
        return Want::DontCare;
    }
    Want::Accept
}

fn f64_alphabet(n: u32, tier: Tier) -> Vec<f64> {
    let nf = n as f64;
    let mut v = vec![0.0, 1.0, nf, nf - 1.0, 0.5, nf - 0.5, (2.0f64).powi(-20), nf * (1.0 - f64::EPSILON)];
    let inv = invalid_coords(n);
    match tier {
        Tier::Quick => v.extend([inv[0], inv[2], inv[4], inv[5], inv[6], inv[7], inv[8], inv[10]]),
        Tier::Thorough => {
            v.extend(inv);
            v.extend([nf - (2.0f64).powi(-20), 0.25, nf * f64::EPSILON, nf / 2.0]);
        }
    }
    let mut out: Vec<f64> = vec![];
    for x in v {
        if !out.iter().any(|y: &f64| y.to_bits() == x.to_bits()) {
            out.push(x);
        }
    }
    out
}

// ---- buffer constructors --------------------------------------------------------------------

const BUF_CTORS: [&str; 9] = [
    "Image::from_vec_u8",
    "Image::from_slice_u8",
    "ImageRef::new",
    "ImageRef::from_pixels",
    "TypedImage::from_pixels",
    "TypedImage::from_pixels_slice",
    "TypedImage::from_buffer",
    "TypedImageRef::new",
    "TypedImageRef::from_buffer",
];

pub fn prop(tier: Tier, _seed: u64) -> Prop {
    let mut p = Prop::new("C04");
    p.both_profiles = true;

    // ---- (a) u32 rectangles
    let a = u32_alphabet(tier);
    let na = a.len() as u64;
    let sizes: Vec<(u32, u32)> = {
        let mut v = vec![];
        for w in 0..=6u32 {
            for h in 0..=6u32 {
                v.push((w, h));
            }
        }
        v
    };
    let pts = [PT::U8, PT::U8x3, PT::U16x2, PT::F32x4];
    let dims = vec![sizes.len() as u64, 6, na, na];
    let (a2, s2, d2) = (a.clone(), sizes.clone(), dims.clone());
    p.spaces.push(Space::new("u32 rectangles x image sizes x 6 constructors", product(&dims), move |idx, ctx| {
        let mut d = [0usize; 4];
        decode(idx, &d2, &mut d);
        let (w, h) = s2[d[0]];
        let ctor = d[1];
        let (l, t) = (a2[d[2]], a2[d[3]]);
        let pt = pts[(d[0] + ctor) % pts.len()];
        ctx.sample(|| json!({"image": [w, h], "pixel": format!("{:?}", pt), "constructor": CTORS[ctor], "left": l, "top": t, "width,height": format!("all of {:?}^2", a2)}));
        if ctx.describe_only {
            return;
        }
        let mut parent = Raw::from_fn(pt, w, h, |x, y, c| ((y * 7 + x) * 4 + c as u32 + 1) as f64);
        for &cw in a2.iter() {
            for &ch in a2.iter() {
                let want = want_u32(w, h, l, t, cw, ch);
                let inspect = want == Want::Accept;
                let r = guarded(|| try_view(ctor, &mut parent, l, t, cw, ch, inspect));
                ctx.ops += 1;
                ctx.nontrivial += 1;
                match r {
                    Err((loc, msg)) => ctx.violation(format!("C04|{}|panic|{}", CTORS[ctor], panic_class(&msg)), || {
                        json!({"image": [w, h], "rect": [l, t, cw, ch], "panic_at": loc, "message": msg})
                    }),
                    Ok((acc, fail)) => {
                        if acc && want == Want::Reject {
                            ctx.violation(format!("C04|{}|accepted a rectangle outside the image", CTORS[ctor]), || json!({"image": [w, h], "rect": [l, t, cw, ch]}));
                        } else if !acc && want == Want::Accept {
                            ctx.violation(format!("C04|{}|rejected a rectangle inside the image", CTORS[ctor]), || json!({"image": [w, h], "rect": [l, t, cw, ch]}));
                        }
                        if let Some(f) = fail {
                            ctx.violation(format!("C04|{}|accepted view exposes wrong pixels", CTORS[ctor]), || json!({"image": [w, h], "rect": [l, t, cw, ch], "what": f}));
                        }
                        ctx.outcome(mix(acc as u64, mix((cw.min(9) * 16 + ch.min(9)) as u64, (l.min(9) * 16 + t.min(9)) as u64)));
                    }
                }
            }
        }
        ctx.class(mix(ctor as u64, mix(d[0] as u64, (l > 8) as u64 * 2 + (t > 8) as u64)));
    }));

    // ---- (b) f64 crop boxes through Resizer::resize
    let img_sizes: Vec<u32> = vec![0, 1, 4, 7];
    let algs = [Alg::Nearest, Alg::Conv(F::Bilinear), Alg::SS(F::Box, 2)];
    let ptb = [PT::U8, PT::U8x4, PT::F32x3];
    let nmax = img_sizes.iter().map(|n| f64_alphabet(*n, tier).len()).max().unwrap() as u64;
    let dimsb = vec![4u64, 4, 3, 3, nmax, nmax];
    let db = dimsb.clone();
    p.spaces.push(Space::new("f64 crop boxes through Resizer::resize", product(&dimsb), move |idx, ctx| {
        let mut d = [0usize; 6];
        decode(idx, &db, &mut d);
        let (w, h) = (img_sizes[d[0]], img_sizes[d[1]]);
        let (alg, pt) = (algs[d[2]], ptb[d[3]]);
        let ax = f64_alphabet(w, tier);
        let ay = f64_alphabet(h, tier);
        if d[4] >= ax.len() || d[5] >= ay.len() {
            return;
        }
        let (l, t) = (ax[d[4]], ay[d[5]]);
        ctx.sample(|| json!({"image": [w, h], "pixel": format!("{:?}", pt), "alg": format!("{:?}", alg), "left": l, "top": t, "width": format!("{:?}", ax), "height": format!("{:?}", ay)}));
        if ctx.describe_only {
            return;
        }
        let mut lc = Lcg::new(idx);
        let src = Raw::from_fn(pt, w, h, |_, _, _| lc.comp(pt.ck()));
        let mut rz = new_resizer(BE::None);
        for &cw in ax.iter() {
            for &ch in ay.iter() {
                let want = want_f64(w, h, l, t, cw, ch);
                let o = ResizeOptions::new().resize_alg(alg.fir()).crop(l, t, cw, ch).use_alpha(false);
                let mut dst = Raw::new(pt, 2, 3);
                let r = guarded(|| {
                    let s = src.image_ref();
                    let mut di = dst.image_mut();
                    rz.resize(&s, &mut di, &o)
                });
                ctx.ops += 1;
                ctx.nontrivial += 1;
                let fl = |v: f64| if v.is_nan() { "NaN" } else if v.is_infinite() { "inf" } else if v < 0.0 { "negative" } else { "finite>=0" };
                match r {
                    Err((loc, msg)) => ctx.violation(format!("C04|resize(crop)|panic|{}|{}", loc, panic_class(&msg)), || {
                        json!({"image": [w, h], "crop": format!("{:?}", (l, t, cw, ch)), "alg": format!("{:?}", alg), "panic_at": loc, "message": msg})
                    }),
                    Ok(res) => {
                        let acc = res.is_ok();
                        if acc && want == Want::Reject {
                            let class = if [l, t, cw, ch].iter().any(|v| v.is_nan()) {
                                "NaN coordinate"
                            } else if [l, t, cw, ch].iter().any(|v| v.is_infinite()) {
                                "infinite coordinate"
                            } else if l < 0.0 || t < 0.0 {
                                "negative origin"
                            } else if cw < 0.0 || ch < 0.0 {
                                "negative size"
                            } else {
                                "box extends past the image"
                            };
                            ctx.violation(format!("C04|resize(crop)|accepted invalid box|{}", class), || {
                                json!({"image": [w, h], "crop": format!("{:?}", (l, t, cw, ch)), "alg": format!("{:?}", alg), "classes": [fl(l), fl(t), fl(cw), fl(ch)]})
                            });
                        } else if !acc && want == Want::Accept {
                            ctx.violation("C04|resize(crop)|rejected a box inside the image", || {
                                json!({"image": [w, h], "crop": format!("{:?}", (l, t, cw, ch)), "alg": format!("{:?}", alg), "err": format!("{:?}", res)})
                            });
                        }
                        ctx.outcome(mix(acc as u64, mix(d[4] as u64 * 64 + d[5] as u64, fnv(dst.bytes()))));
                    }
                }
            }
        }
        ctx.class(mix(mix(d[0] as u64 * 4 + d[1] as u64, d[2] as u64 * 3 + d[3] as u64), mix(d[4] as u64, d[5] as u64)));
    }).isolated());

    // ---- (c) buffer constructors
    let mut whs: Vec<(u32, u32)> = vec![];
    for w in 0..=6u32 {
        for h in 0..=6u32 {
            whs.push((w, h));
        }
    }
    whs.extend([(65536, 65536), (u32::MAX, 2), (2, u32::MAX), (1 << 31, 1 << 31), (u32::MAX, u32::MAX), (1 << 30, 1 << 30), (1 << 16, 1 << 15), (3 << 30, 3 << 30)]);
    let dimsc = vec![13u64, 9, whs.len() as u64];
    let (dc, wh2) = (dimsc.clone(), whs.clone());
    p.spaces.push(Space::new("buffer constructors x sizes x lengths x alignment", product(&dimsc), move |idx, ctx| {
        let mut d = [0usize; 3];
        decode(idx, &dc, &mut d);
        let pt = ALL_PT[d[0]];
        let ctor = d[1];
        let (w, h) = wh2[d[2]];
        let ps = pt.psize();
        let need: u128 = w as u128 * h as u128 * ps as u128;
        ctx.sample(|| json!({"pixel": format!("{:?}", pt), "constructor": BUF_CTORS[ctor], "size": [w, h], "need_bytes": need.to_string()}));
        if ctx.describe_only {
            return;
        }
        let align = pt.ck().size();
        let huge = need > 4096;
        let lens: Vec<usize> = if huge {
            vec![0, 1, ps, 64, 4096]
        } else {
            let n = need as usize;
            let mut v = vec![n.saturating_sub(ps), n.saturating_sub(1), n, n + 1, n + ps];
            v.dedup();
            v
        };
        for &len in lens.iter() {
            for off in 0..ps.min(4) {
                let mut block = ABuf::filled(len + 16, 0);
                for (i, b) in block.as_mut().iter_mut().enumerate() {
                    *b = (i * 7 + 3) as u8;
                }
                let by_pixels = matches!(ctor, 3 | 4 | 5 | 7);
                if by_pixels && (off % align != 0 || len % ps != 0) {
                    continue; // a &[P] cannot be misaligned or fractional
                }
                let aligned = off % align == 0;
                let big_enough = (len as u128) >= need;
                // need == 0 with any buffer is fine
                let want_ok = big_enough && aligned;
                let bytes_all = block.as_mut();
                let bytes = &mut bytes_all[off..off + len];
                let expect: Vec<u8> = bytes[..if big_enough { need as usize } else { 0 }].to_vec();
                let r = guarded(|| -> (bool, Option<String>) {
                    fn rd<V: ImageView>(v: &V, w: u32, h: u32, expect: &[u8]) -> Option<String> {
                        if v.width() != w || v.height() != h {
                            return Some("wrong reported size".into());
                        }
                        let mut got = vec![];
                        let mut rows = 0;
                        for row in v.iter_rows(0) {
                            if row.len() != w as usize {
                                return Some(format!("row of {} pixels, width {}", row.len(), w));
                            }
                            got.extend_from_slice(pixels_as_bytes_any(row));
                            rows += 1;
                        }
                        if w > 0 && rows != h {
                            return Some(format!("{} rows, height {}", rows, h));
                        }
                        if w > 0 && got != expect {
                            return Some("rows are not the buffer prefix".into());
                        }
                        None
                    }
                    let inspect = want_ok && !huge;
                    match ctor {
                        0 => match Image::from_vec_u8(w, h, bytes.to_vec(), pt.fir()) {
                            // a Vec copy has its own alignment: accept either verdict on alignment
                            Ok(img) => (true, if inspect { with_pt!(pt, P => img.image_view::<P>().and_then(|v| rd(&v, w, h, &expect))) } else { None }),
                            Err(_) => (false, None),
                        },
                        1 => match Image::from_slice_u8(w, h, bytes, pt.fir()) {
                            Ok(img) => (true, if inspect { with_pt!(pt, P => img.image_view::<P>().and_then(|v| rd(&v, w, h, &expect))) } else { None }),
                            Err(_) => (false, None),
                        },
                        2 => match ImageRef::new(w, h, bytes, pt.fir()) {
                            Ok(img) => (true, if inspect { with_pt!(pt, P => img.image_view::<P>().and_then(|v| rd(&v, w, h, &expect))) } else { None }),
                            Err(_) => (false, None),
                        },
                        _ => with_pt!(pt, P => {
                            match ctor {
                                3 => match ImageRef::from_pixels::<P>(w, h, as_pixels::<P>(bytes)) {
                                    Ok(img) => (true, if inspect { img.image_view::<P>().and_then(|v| rd(&v, w, h, &expect)) } else { None }),
                                    Err(_) => (false, None),
                                },
                                4 => match TypedImage::<P>::from_pixels(w, h, as_pixels::<P>(bytes).to_vec()) {
                                    Ok(img) => (true, if inspect { rd(&img, w, h, &expect) } else { None }),
                                    Err(_) => (false, None),
                                },
                                5 => match TypedImage::<P>::from_pixels_slice(w, h, as_pixels_mut::<P>(bytes)) {
                                    Ok(img) => (true, if inspect { rd(&img, w, h, &expect) } else { None }),
                                    Err(_) => (false, None),
                                },
                                6 => match TypedImage::<P>::from_buffer(w, h, bytes) {
                                    Ok(img) => (true, if inspect { rd(&img, w, h, &expect) } else { None }),
                                    Err(_) => (false, None),
                                },
                                7 => match TypedImageRef::<P>::new(w, h, as_pixels::<P>(bytes)) {
                                    Ok(img) => (true, if inspect { rd(&img, w, h, &expect) } else { None }),
                                    Err(_) => (false, None),
                                },
                                _ => match TypedImageRef::<P>::from_buffer(w, h, bytes) {
                                    Ok(img) => (true, if inspect { rd(&img, w, h, &expect) } else { None }),
                                    Err(_) => (false, None),
                                },
                            }
                        }),
                    }
                });
                ctx.ops += 1;
                ctx.nontrivial += 1;
                match r {
                    Err((loc, msg)) => ctx.violation(format!("C04|{}|panic|{}", BUF_CTORS[ctor], panic_class(&msg)), || {
                        json!({"pixel": format!("{:?}", pt), "size": [w, h], "buffer_len": len, "offset": off, "panic_at": loc, "message": msg})
                    }),
                    Ok((acc, fail)) => {
                        // from_vec_u8 copies into a fresh Vec: alignment of the copy is the allocator's
                        let align_free = ctor == 0;
                        // trailing-fraction rule for from_buffer: align_to drops a partial last pixel,
                        // so len must hold `need` bytes *after* alignment — same as big_enough here
                        if acc && !big_enough {
                            ctx.violation(format!("C04|{}|accepted a buffer that is too small", BUF_CTORS[ctor]), || {
                                json!({"pixel": format!("{:?}", pt), "size": [w, h], "need_bytes": need.to_string(), "buffer_len": len, "offset": off})
                            });
                        } else if acc && !aligned && !align_free && len > 0 {
                            // (an empty buffer has no address that is ever dereferenced: don't-care)
                            ctx.violation(format!("C04|{}|accepted a misaligned buffer", BUF_CTORS[ctor]), || {
                                json!({"pixel": format!("{:?}", pt), "size": [w, h], "buffer_len": len, "offset": off})
                            });
                        } else if !acc && want_ok {
                            ctx.violation(format!("C04|{}|rejected a sufficient aligned buffer", BUF_CTORS[ctor]), || {
                                json!({"pixel": format!("{:?}", pt), "size": [w, h], "need_bytes": need.to_string(), "buffer_len": len, "offset": off})
                            });
                        }
                        if let Some(f) = fail {
                            ctx.violation(format!("C04|{}|accepted image exposes wrong rows", BUF_CTORS[ctor]), || {
                                json!({"pixel": format!("{:?}", pt), "size": [w, h], "buffer_len": len, "offset": off, "what": f})
                            });
                        }
                        ctx.outcome(mix(acc as u64, mix(len as u64, off as u64 + 16 * ctor as u64)));
                    }
                }
            }
        }
        ctx.class(mix(d[0] as u64, mix(d[1] as u64, d[2] as u64)));
    }));

    p.rule = "(a) every (left,top,width,height) in A^4 (A = small values, 2^31±1, values up to u32::MAX) x image sizes (0..6)^2 x the six cropped-view constructors, accepted views read back against the rectangle model; (b) every crop box whose coordinates come from the valid+invalid f64 alphabet (NaN, ±inf, negative, -0, denormal, edge±2^-40 ...) x image sizes {0,1,4,7}^2 x 3 algorithms x 3 pixel types through Resizer::resize; (c) the nine buffer constructors x 13 pixel types x sizes (0..6)^2 and overflow pairs x lengths need-P..need+P x byte offsets. Oracle: exact u64/u128/TwoSum arithmetic; zero-area boxes are don't-care".into();
    p.bounds = json!({"A": a, "f64_alphabet_size_max": nmax});
    p.assumptions = vec![
        "zero-area boxes (a zero size, or an origin on the far edge) and f64 boxes whose exact far edge exceeds the image by less than the f64 rounding of left+width are don't-care".into(),
        "judged on the optimised and on the debug-assertion build (wrap vs overflow panic)".into(),
    ];
    p
}
