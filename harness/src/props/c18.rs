//! C18 — non-negative filters never overshoot and preserve the order of inputs.
use crate::alg::*;
use crate::coef::{self, Geo};
use crate::conv::*;
use crate::explore::*;
use crate::props::c01::alg_class;
use crate::props::c10::{model_crops, model_pairs, unit_violation_u16, unit_violation_u8};
use crate::px::*;
use crate::{Prop, Tier};
use serde_json::json;

fn ulp32(x: f64) -> f64 {
    let a = (x.abs() as f32).max(f32::MIN_POSITIVE);
    (f32::from_bits(a.to_bits() + 1) - a) as f64
}

/// (lo, hi) ranges per component kind.
fn ranges(ck: CK) -> Vec<(f64, f64)> {
    match ck {
        CK::U8 => vec![(0.0, 0.0), (0.0, 255.0), (255.0, 255.0), (1.0, 254.0), (7.0, 9.0), (254.0, 255.0)],
        CK::U16 => vec![(0.0, 0.0), (0.0, 65535.0), (65535.0, 65535.0), (1.0, 65534.0), (7.0, 9.0), (65534.0, 65535.0)],
        CK::I32 => vec![(i32::MIN as f64, i32::MAX as f64), (-5.0, 5.0), (i32::MIN as f64, i32::MIN as f64 + 1.0), (i32::MAX as f64 - 1.0, i32::MAX as f64)],
        CK::F32 => vec![(0.0, 1.0), (-1.0, 1.0), (0.0, (3.0e38f32 * 0.25) as f64), (0.5, 0.5)],
    }
}

/// Rows for the 1-D family: for each range a few patterns, then ordered pairs (A, B) with A <= B.
/// Returns (rows, pairs of row indices (a,b) with rows[a] <= rows[b] component-wise).
fn rows_and_pairs(ck: CK, n_in: usize, seed: u64) -> (Vec<Vec<f64>>, Vec<(usize, usize)>) {
    let mut rows: Vec<Vec<f64>> = vec![];
    let mut pairs = vec![];
    let fx = |v: f64| if ck == CK::F32 { v as f32 as f64 } else { v };
    for (ri, (lo, hi)) in ranges(ck).into_iter().enumerate() {
        let (lo, hi) = (fx(lo), fx(hi));
        let mut l = Lcg::new(seed ^ (ri as u64 * 977 + n_in as u64));
        let within = |l: &mut Lcg| -> f64 {
            let u = (l.next() >> 11) as f64 / (1u64 << 53) as f64;
            let v = lo + (hi - lo) * u;
            let v = if ck.is_int() { v.round() } else { fx(v) };
            v.clamp(lo, hi)
        };
        rows.push((0..n_in).map(|i| if i % 2 == 0 { hi } else { lo }).collect());
        rows.push((0..n_in).map(|i| if (i / 2) % 2 == 0 { lo } else { hi }).collect());
        let a: Vec<f64> = (0..n_in).map(|_| within(&mut l)).collect();
        let ia = rows.len();
        rows.push(a.clone());
        // B = A with one position raised (by one unit / to hi), at every position for short rows
        let step = (n_in / 6).max(1);
        for i in (0..n_in).step_by(step) {
            for full in [false, true] {
                let mut b = a.clone();
                let raised = if full { hi } else if ck.is_int() { (a[i] + 1.0).min(hi) } else { fx(a[i] + (hi - a[i]) * 0.5) };
                if raised > a[i] {
                    b[i] = raised;
                    pairs.push((ia, rows.len()));
                    rows.push(b);
                }
            }
        }
        // B = max(A, other stream)
        let b: Vec<f64> = a.iter().map(|&x| x.max(within(&mut l))).collect();
        pairs.push((ia, rows.len()));
        rows.push(b);
    }
    (rows, pairs)
}

pub fn prop(tier: Tier, seed: u64) -> Prop {
    let mut p = Prop::new("C18");
    let bes = backends();

    // ---- (a) model level: every integer coefficient >= 0 and partition of unity
    let pairs = model_pairs(tier);
    let dims = vec![pairs.len() as u64, 4, 2];
    let (d1, pr) = (dims.clone(), pairs.clone());
    p.spaces.push(Space::new("model: all coefficients >= 0 and partition of unity for the 4 non-negative filters (every geometry)", product(&dims), move |idx, ctx| {
        let mut d = [0usize; 3];
        decode(idx, &d1, &mut d);
        let ((n_in, n_out), f, adaptive) = (pr[d[0]], NONNEG[d[1]], d[2] == 0);
        ctx.sample(|| json!({"n_in": n_in, "n_out": n_out, "filter": format!("{:?}", f), "adaptive": adaptive, "crops": "CROP1(n_in)"}));
        if ctx.describe_only {
            return;
        }
        for crop in model_crops(n_in) {
            if axis_is_identity(crop, n_out) {
                continue;
            }
            let dump = coef::dump(&Geo { n_in, crop, n_out, f, adaptive }, true, true);
            ctx.ops += dump.bounds.len() as u64;
            ctx.nontrivial += 1;
            if (0..dump.bounds.len()).any(|j| coef::weights(&dump, j).1.iter().all(|w| *w == 0.0)) {
                ctx.note("geometries with a window of zero total weight (no value defined)", 1);
                continue;
            }
            let neg16 = dump.chunks16.iter().enumerate().find(|(_, c)| c.1.iter().any(|k| *k < 0));
            let neg32 = dump.chunks32.iter().enumerate().find(|(_, c)| c.1.iter().any(|k| *k < 0));
            let negf = dump.values.iter().position(|w| *w < 0.0);
            if let Some((j, c)) = neg16 {
                ctx.violation(format!("C18|model|negative 8-bit coefficient|{:?}", f), || json!({"n_in": n_in, "crop": [crop.start, crop.len], "n_out": n_out, "adaptive": adaptive, "sample": j, "coefficients": c.1}));
            }
            if let Some((j, _)) = neg32 {
                ctx.violation(format!("C18|model|negative 16-bit coefficient|{:?}", f), || json!({"n_in": n_in, "crop": [crop.start, crop.len], "n_out": n_out, "adaptive": adaptive, "sample": j}));
            }
            if let Some(i) = negf {
                ctx.violation(format!("C18|model|negative f64 weight|{:?}", f), || json!({"n_in": n_in, "crop": [crop.start, crop.len], "n_out": n_out, "adaptive": adaptive, "index": i, "weight": dump.values[i]}));
            }
            if let Some((j, v, got)) = unit_violation_u8(&dump) {
                ctx.violation(format!("C18|model|8-bit weights do not sum to one (overshoot possible)|{:?}", f), || json!({"n_in": n_in, "crop": [crop.start, crop.len], "n_out": n_out, "sample": j, "value": v, "model_output": got}));
            }
            if let Some((j, v, got)) = unit_violation_u16(&dump) {
                ctx.violation(format!("C18|model|16-bit weights do not sum to one (overshoot possible)|{:?}", f), || json!({"n_in": n_in, "crop": [crop.start, crop.len], "n_out": n_out, "sample": j, "value": v, "model_output": got}));
            }
            ctx.class(mix(mix(d[1] as u64, d[2] as u64), mix(dump.precision16 as u64, (dump.window_size % 16) as u64)));
            ctx.outcome(mix(dump.precision16 as u64, dump.chunks16.first().map(|c| c.1.iter().map(|k| *k as u64).sum::<u64>()).unwrap_or(0)));
        }
    }).isolated());

    // ---- (b) direct 1-D, both orientations
    let n: u32 = tier.pick(12, 32);
    let algs: Vec<Alg> = NONNEG.iter().flat_map(|f| [Alg::Conv(*f), Alg::Interp(*f)]).collect();
    let dims2 = vec![n as u64, n as u64, 6, algs.len() as u64];
    let (d2, a2, b2) = (dims2.clone(), algs.clone(), bes.clone());
    p.spaces.push(Space::new("direct 1-D: n_in x n_out x crop x 4 non-negative filters x {Conv,Interp}: range and ordered pairs (13 types x back-ends x 2 orientations)", product(&dims2), move |idx, ctx| {
        let mut d = [0usize; 4];
        decode(idx, &d2, &mut d);
        let (n_in, n_out) = (d[0] as u32 + 1, d[1] as u32 + 1);
        let crops = crop1_small(n_in);
        if d[2] >= crops.len() {
            return;
        }
        let (crop, alg) = (crops[d[2]], a2[d[3]]);
        ctx.sample(|| json!({"n_in": n_in, "n_out": n_out, "crop": [crop.start, crop.len], "alg": format!("{:?}", alg)}));
        if ctx.describe_only {
            return;
        }
        let f = alg.filter().unwrap();
        if !axis_is_identity(crop, n_out) {
            let dump = dump_for(n_in, crop, n_out, f, adaptive_of(alg));
            if (0..dump.bounds.len()).any(|j| coef::weights(&dump, j).1.iter().all(|w| *w == 0.0)) {
                ctx.note("geometries with a window of zero total weight (no value defined)", 1);
                return;
            }
        }
        for ck in [CK::U8, CK::U16, CK::I32, CK::F32] {
            let (rows, pairs) = rows_and_pairs(ck, n_in as usize, seed);
            let h = rows.len();
            let mm: Vec<(f64, f64)> = rows.iter().map(|r| (r.iter().cloned().fold(f64::INFINITY, f64::min), r.iter().cloned().fold(f64::NEG_INFINITY, f64::max))).collect();
            for pt in ALL_PT.iter().copied().filter(|p| p.ck() == ck) {
                for &be in b2.iter() {
                    if ck == CK::I32 && be != BE::None {
                        continue;
                    }
                    let mut rz = new_resizer(be);
                    for orient in [Orient::Horiz, Orient::Vert] {
                        // one channel layout only: all channels carry the same row (no 7c shift), so
                        // pairs stay aligned; channel independence is C01/C02's business
                        let src = match orient {
                            Orient::Horiz => Raw::from_fn(pt, n_in, h as u32, |x, y, _| rows[y as usize][x as usize]),
                            Orient::Vert => Raw::from_fn(pt, h as u32, n_in, |x, y, _| rows[x as usize][y as usize]),
                        };
                        let dst = run_1d(&mut rz, &src, orient, crop, n_out, alg, false);
                        ctx.ops += 1;
                        let nc = pt.ncomp();
                        // range
                        let mut bad: Option<(usize, usize, usize, f64)> = None;
                        'o: for line in 0..h {
                            let (lo, hi) = mm[line];
                            for c in 0..nc {
                                for j in 0..n_out as usize {
                                    let g = get_1d(&dst, orient, line, j, c);
                                    let t = if ck == CK::F32 { ulp32(g) } else { 0.0 };
                                    if !(g >= lo - t && g <= hi + t) {
                                        bad = Some((line, j, c, g));
                                        break 'o;
                                    }
                                }
                            }
                        }
                        if let Some((line, j, c, g)) = bad {
                            ctx.violation(format!("C18|direct|{:?}|{}|{:?}|{:?}|output outside the range of the source", orient, alg_class(alg), pt, be), || {
                                json!({"n_in": n_in, "crop": [crop.start, crop.len], "n_out": n_out, "alg": format!("{:?}", alg), "row": rows[line], "sample": j, "channel": c, "got": g, "source_min": mm[line].0, "source_max": mm[line].1})
                            });
                        }
                        // ordered pairs
                        let mut badp: Option<(usize, usize, usize, usize, f64, f64)> = None;
                        'p: for &(a, b) in pairs.iter() {
                            for c in 0..nc {
                                for j in 0..n_out as usize {
                                    let (ga, gb) = (get_1d(&dst, orient, a, j, c), get_1d(&dst, orient, b, j, c));
                                    let t = if ck == CK::F32 { ulp32(ga.abs().max(gb.abs())) } else { 0.0 };
                                    if ga > gb + t {
                                        badp = Some((a, b, j, c, ga, gb));
                                        break 'p;
                                    }
                                }
                            }
                        }
                        ctx.traces += (pairs.len() * nc * n_out as usize) as u64;
                        if let Some((a, b, j, c, ga, gb)) = badp {
                            ctx.violation(format!("C18|direct|{:?}|{}|{:?}|{:?}|raising the input lowered the output", orient, alg_class(alg), pt, be), || {
                                json!({"n_in": n_in, "crop": [crop.start, crop.len], "n_out": n_out, "alg": format!("{:?}", alg), "A": rows[a], "B": rows[b], "sample": j, "channel": c, "out(A)": ga, "out(B)": gb})
                            });
                        }
                        ctx.class(mix(mix(pt.idx() as u64, be as u64), mix((n_in % 16) as u64, ((n_out % 8) as u64) * 2 + (orient == Orient::Vert) as u64)));
                        ctx.outcome(fnv(dst.bytes()));
                    }
                }
            }
        }
        ctx.nontrivial += 1;
    }).isolated());

    // ---- (c) direct 2-D incl. SuperSampling
    let m: u32 = tier.pick(4, 6);
    let mut algs3: Vec<Alg> = vec![];
    for f in NONNEG {
        algs3.extend([Alg::Conv(f), Alg::Interp(f), Alg::SS(f, 2)]);
    }
    let mut shapes: Vec<(u32, u32, u32, u32)> = vec![];
    for a in 1..=m {
        for b in 1..=m {
            for c in 1..=m {
                for e in 1..=m {
                    shapes.push((a, b, c, e));
                }
            }
        }
    }
    shapes.extend([(8, 8, 4, 4), (9, 7, 2, 3), (16, 5, 3, 2), (20, 20, 3, 3), (33, 9, 7, 5)]);
    let dims3 = vec![shapes.len() as u64, algs3.len() as u64];
    let (d3, s3, a3, b3) = (dims3.clone(), shapes.clone(), algs3.clone(), bes.clone());
    p.spaces.push(Space::new("direct 2-D: shapes x 12 algorithms incl. SuperSampling: range and ordered pairs (13 types x back-ends)", product(&dims3), move |idx, ctx| {
        let mut d = [0usize; 2];
        decode(idx, &d3, &mut d);
        let (sw, sh, dw, dh) = s3[d[0]];
        let alg = a3[d[1]];
        ctx.sample(|| json!({"src": [sw, sh], "dst": [dw, dh], "alg": format!("{:?}", alg)}));
        if ctx.describe_only {
            return;
        }
        for pt in ALL_PT {
            let ck = pt.ck();
            for (ri, (lo, hi)) in ranges(ck).into_iter().enumerate() {
                let fx = |v: f64| if ck == CK::F32 { v as f32 as f64 } else { v };
                let (lo, hi) = (fx(lo), fx(hi));
                let mut l = Lcg::new(seed ^ (idx * 31 + ri as u64));
                let mut within = || -> f64 {
                    let u = (l.next() >> 11) as f64 / (1u64 << 53) as f64;
                    let v = lo + (hi - lo) * u;
                    (if ck.is_int() { v.round() } else { fx(v) }).clamp(lo, hi)
                };
                let a = Raw::from_fn(pt, sw, sh, |x, y, _| if (x + y) % 3 == 0 { lo } else if (x + y) % 3 == 1 { hi } else { within() });
                let b = Raw::from_fn(pt, sw, sh, |x, y, c| a.get(x, y, c).max(within()));
                for &be in b3.iter() {
                    if ck == CK::I32 && be != BE::None {
                        continue;
                    }
                    let mut rz = new_resizer(be);
                    let o = Opts::new(alg);
                    let (Ok(oa), Ok(ob)) = (resize_raw(&mut rz, &a, dw, dh, &o), resize_raw(&mut rz, &b, dw, dh, &o)) else { continue };
                    ctx.ops += 2;
                    let n = (dw * dh) as usize * pt.ncomp();
                    ctx.traces += n as u64;
                    for i in 0..n {
                        let (ga, gb) = (get_comp(ck, oa.bytes(), i), get_comp(ck, ob.bytes(), i));
                        let t = if ck == CK::F32 { ulp32(ga.abs().max(gb.abs())) } else { 0.0 };
                        if !(ga >= lo - t && ga <= hi + t) {
                            ctx.violation(format!("C18|direct 2-D|{}|{:?}|{:?}|output outside the range of the source", alg_class(alg), pt, be), || {
                                json!({"src": [sw, sh], "dst": [dw, dh], "alg": format!("{:?}", alg), "range": [lo, hi], "got": ga, "component_index": i, "source_bytes": a.bytes().iter().take(64).collect::<Vec<_>>()})
                            });
                            break;
                        }
                        if ga > gb + t {
                            ctx.violation(format!("C18|direct 2-D|{}|{:?}|{:?}|raising the input lowered the output", alg_class(alg), pt, be), || {
                                json!({"src": [sw, sh], "dst": [dw, dh], "alg": format!("{:?}", alg), "out(A)": ga, "out(B)": gb, "component_index": i})
                            });
                            break;
                        }
                    }
                    ctx.outcome(fnv(oa.bytes()));
                }
            }
            ctx.class(mix(pt.idx() as u64 + 800, mix(d[0] as u64 % 64, d[1] as u64)));
        }
        ctx.nontrivial += 1;
    }).isolated());

    p.rule = "(a) model: for Box/Bilinear/Hamming/Gaussian and every geometry of the model space, every i16/i32 coefficient and f64 weight read through the hook is >= 0 and the integer weights sum to 2^p closely enough that no constant overshoots: together with the E2 conformance replays (C02) this decides range and monotonicity for ALL contents of 8/16-bit formats; (b) direct 1-D n_in,n_out up to N x crops x 8 algorithms x 13 types x back-ends x 2 orientations on range-limited rows (ranges touching 0, max, negative i32) and ordered pairs (B = A with one position raised at stepped positions, B = max(A, lcg)); (c) 2-D shapes incl. SuperSampling".into();
    p.bounds = json!({"N": n, "M": m, "model_pairs": pairs.len()});
    p.assumptions = vec!["floats: one f32 ulp".into(), "in a single-pass (one-dimensional) resize lines do not mix, so the range of each line is used (sharper than the whole-image range the statement names; implied by C12)".into()];
    p
}
