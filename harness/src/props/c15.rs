//! C15 — fit-into-destination crop is in bounds, keeps aspect, honours centering.
use crate::alg::*;
use crate::explore::*;
use crate::px::*;
use crate::{Prop, Tier};
use fast_image_resize as fir;
use fir::CropBox;
use serde_json::json;

fn centerings() -> Vec<f64> {
    vec![
        f64::NEG_INFINITY,
        -1.0,
        -0.0,
        0.0,
        f64::EPSILON,
        0.25,
        1.0 / 3.0,
        0.5,
        2.0 / 3.0,
        1.0 - f64::EPSILON / 2.0,
        1.0,
        1.0 + f64::EPSILON,
        2.0,
        f64::INFINITY,
    ]
}

fn ulp(x: f64) -> f64 {
    let x = x.abs().max(f64::MIN_POSITIVE);
    f64::from_bits(x.to_bits() + 1) - x
}

/// The oracle. Returns a failure class or None.
fn judge(sw: u32, sh: u32, dw: u32, dh: u32, c: Option<(f64, f64)>, b: &CropBox) -> Option<&'static str> {
    let (w, h) = (sw as f64, sh as f64);
    if !(b.left.is_finite() && b.top.is_finite() && b.width.is_finite() && b.height.is_finite()) {
        return Some("non-finite");
    }
    if !(b.left >= 0.0 && b.top >= 0.0) {
        return Some("negative origin");
    }
    if !(b.width > 0.0 && b.height > 0.0) {
        return Some("non-positive size");
    }
    // exactly the comparisons ResizeOptions::crop validation will make
    if b.left + b.width > w || b.top + b.height > h || b.left >= w || b.top >= h {
        return Some("outside source");
    }
    let want = dw as f64 / dh as f64;
    let got = b.width / b.height;
    if (got - want).abs() > 4.0 * ulp(want) {
        return Some("aspect ratio");
    }
    if !(b.width == w || b.height == h) {
        return Some("spans neither dimension");
    }
    let (cx, cy) = c.unwrap_or((0.5, 0.5));
    let cx = if cx < 0.0 { 0.0 } else if cx > 1.0 { 1.0 } else { cx };
    let cy = if cy < 0.0 { 0.0 } else if cy > 1.0 { 1.0 } else { cy };
    if (b.left - (w - b.width) * cx).abs() > 2.0 * ulp(w) {
        return Some("horizontal centering");
    }
    if (b.top - (h - b.height) * cy).abs() > 2.0 * ulp(h) {
        return Some("vertical centering");
    }
    None
}

fn check_one(ctx: &mut Ctx, sw: u32, sh: u32, dw: u32, dh: u32, c: Option<(f64, f64)>) {
    let b = CropBox::fit_src_into_dst_size(sw, sh, dw, dh, c);
    ctx.ops += 1;
    if let Some(class) = judge(sw, sh, dw, dh, c, &b) {
        ctx.violation(format!("C15|fit_src_into_dst_size|{}", class), || {
            json!({"src": [sw, sh], "dst": [dw, dh], "centering": format!("{:?}", c), "crop_box": format!("{:?}", b)})
        });
    }
    // control-flow class: which branch (equal ratio / crop sides / crop top-bottom), centering class
    let br = if b.width == sw as f64 && b.height == sh as f64 {
        0
    } else if b.height == sh as f64 {
        1
    } else {
        2
    };
    let cc = match c {
        None => 0u64,
        Some((x, y)) => 1 + (x < 0.0) as u64 + 2 * (x > 1.0) as u64 + 4 * (y < 0.0) as u64 + 8 * (y > 1.0) as u64,
    };
    ctx.class(mix(br, cc));
    ctx.outcome(mix(b.left.to_bits() ^ b.width.to_bits().rotate_left(17), b.top.to_bits() ^ b.height.to_bits().rotate_left(29)));
}

pub fn prop(tier: Tier, _seed: u64) -> Prop {
    let mut p = Prop::new("C15");
    let b_all: u32 = tier.pick(40, 96);
    let b_full_c: u32 = tier.pick(14, 32);
    let cs = centerings();

    // (a) all quadruples up to B x 8 representative centerings + None
    let rep: Vec<Option<(f64, f64)>> = vec![
        None,
        Some((0.0, 0.0)),
        Some((1.0, 1.0)),
        Some((0.5, 0.5)),
        Some((1.0 / 3.0, 2.0 / 3.0)),
        Some((1.0 - f64::EPSILON / 2.0, f64::EPSILON)),
        Some((-1.0, 2.0)),
        Some((f64::INFINITY, f64::NEG_INFINITY)),
        Some((0.25, 1.0)),
    ];
    let rep2 = rep.clone();
    p.spaces.push(Space::new("quadruples", (b_all * b_all) as u64, move |idx, ctx| {
        let sw = (idx / b_all as u64) as u32 + 1;
        let sh = (idx % b_all as u64) as u32 + 1;
        ctx.sample(|| json!({"src": [sw, sh], "dst": "all (1..B)^2", "centerings": format!("{:?}", rep2)}));
        for dw in 1..=b_all {
            for dh in 1..=b_all {
                for c in rep2.iter() {
                    check_one(ctx, sw, sh, dw, dh, *c);
                }
                ctx.nontrivial += 1;
            }
        }
    }));

    // (b) boundary alphabet S^4 x full C^2
    let s: Vec<u32> = vec![1, 2, 3, 5, 7, 255, 256, 257, 32767, 32768, 65521, 65533, 65534, 65535];
    let ns = s.len() as u64;
    let (s2, cs2) = (s.clone(), cs.clone());
    p.spaces.push(Space::new("boundary^4 x centering^2", ns * ns, move |idx, ctx| {
        let sw = s2[(idx / ns) as usize];
        let sh = s2[(idx % ns) as usize];
        ctx.sample(|| json!({"src": [sw, sh], "dst": format!("{:?}^2", s2), "centerings": format!("{:?}^2", cs2)}));
        for &dw in s2.iter() {
            for &dh in s2.iter() {
                check_one(ctx, sw, sh, dw, dh, None);
                for &cx in cs2.iter() {
                    for &cy in cs2.iter() {
                        check_one(ctx, sw, sh, dw, dh, Some((cx, cy)));
                    }
                }
                ctx.nontrivial += 1;
            }
        }
    }));

    // (c) full centering product on the small box
    let cs3 = cs.clone();
    p.spaces.push(Space::new("small quadruples x centering^2", (b_full_c * b_full_c) as u64, move |idx, ctx| {
        let sw = (idx / b_full_c as u64) as u32 + 1;
        let sh = (idx % b_full_c as u64) as u32 + 1;
        ctx.sample(|| json!({"src": [sw, sh], "dst": "all (1..B2)^2", "centerings": format!("{:?}^2", cs3)}));
        for dw in 1..=b_full_c {
            for dh in 1..=b_full_c {
                for &cx in cs3.iter() {
                    for &cy in cs3.iter() {
                        check_one(ctx, sw, sh, dw, dh, Some((cx, cy)));
                    }
                }
                ctx.nontrivial += 1;
            }
        }
    }));

    // (d) through Resizer::resize: never Err, and equal to the resize with the explicit box
    let bm: u32 = tier.pick(5, 7);
    let cs4 = cs.clone();
    p.spaces.push(Space::new("resize(fit_into_destination)", (bm * bm * bm * bm) as u64, move |idx, ctx| {
        let mut d = [0usize; 4];
        decode(idx, &[bm as u64; 4], &mut d);
        let (sw, sh, dw, dh) = (d[0] as u32 + 1, d[1] as u32 + 1, d[2] as u32 + 1, d[3] as u32 + 1);
        ctx.sample(|| json!({"src": [sw, sh], "dst": [dw, dh], "centerings": "C^2 + None", "pixel": "U8", "alg": "Convolution(Bilinear)"}));
        let mut l = Lcg::new(idx);
        let src = Raw::from_fn(PT::U8, sw, sh, |_, _, _| l.comp(CK::U8));
        let mut rz = new_resizer(BE::None);
        let alg = Alg::Conv(F::Bilinear).fir();
        let mut cents: Vec<Option<(f64, f64)>> = vec![None];
        for &cx in cs4.iter() {
            for &cy in cs4.iter() {
                cents.push(Some((cx, cy)));
            }
        }
        for c in cents {
            let o1 = fir::ResizeOptions::new().resize_alg(alg).fit_into_destination(c);
            let mut d1 = Raw::filled(PT::U8, dw, dh, 0x5a);
            let r1 = {
                let s = src.image_ref();
                let mut di = d1.image_mut();
                rz.resize(&s, &mut di, &o1)
            };
            ctx.ops += 1;
            if let Err(e) = r1 {
                ctx.violation("C15|resize(fit_into_destination)|returned Err", || {
                    json!({"src": [sw, sh], "dst": [dw, dh], "centering": format!("{:?}", c), "err": format!("{:?}", e)})
                });
                continue;
            }
            let b = CropBox::fit_src_into_dst_size(sw, sh, dw, dh, Some(c.unwrap_or((0.5, 0.5))));
            let o2 = fir::ResizeOptions::new().resize_alg(alg).crop(b.left, b.top, b.width, b.height);
            let mut d2 = Raw::filled(PT::U8, dw, dh, 0x5a);
            let r2 = {
                let s = src.image_ref();
                let mut di = d2.image_mut();
                rz.resize(&s, &mut di, &o2)
            };
            ctx.ops += 1;
            ctx.traces += 1;
            if r2.is_err() || d1.bytes() != d2.bytes() {
                ctx.violation("C15|resize(fit_into_destination)|differs from explicit crop", || {
                    json!({"src": [sw, sh], "dst": [dw, dh], "centering": format!("{:?}", c), "box": format!("{:?}", b), "explicit": format!("{:?}", r2)})
                });
            }
            ctx.outcome(fnv(d1.bytes()));
        }
        ctx.nontrivial += 1;
    }));

    p.rule = "every (src_w,src_h,dst_w,dst_h) in (1..B)^4 x 9 representative centerings; boundary alphabet S^4 (|S|=14, up to 65535) x all centering pairs C^2 (|C|=14, incl. -inf,-1,-0,0,eps,...,1+eps,2,+inf) + None; full C^2 on (1..B2)^4; Resizer::resize(fit_into_destination) on (1..M)^4 x C^2 compared with the explicit crop box. A case is distinct by its quadruple; every quadruple is non-trivial (the function is evaluated and judged)".into();
    p.bounds = json!({"B": b_all, "B2": b_full_c, "M": bm, "S": s, "C": format!("{:?}", cs)});
    p.assumptions = vec![
        "aspect tolerance 4 ulp relative, centering tolerance 2 ulp(src size) — the rounding of the three f64 operations the function needs".into(),
        "sizes above the bound are covered only by the boundary alphabet S".into(),
        "centering NaN excluded (as the property says)".into(),
    ];
    p
}
