//! C05 — an operation writes every destination pixel and nothing else.
use crate::alg::*;
use crate::containers::*;
use crate::explore::*;
use crate::props::c06::mul_div;
use crate::px::*;
use crate::{Prop, Tier};
use fast_image_resize as fir;
use fir::{create_gamma_22_mapper, create_srgb_mapper, PixelComponentMapper};
use serde_json::json;
use std::sync::OnceLock;

pub const PLACES: [Place; 8] = [
    Place { l: 0, t: 0, mr: 0, mb: 0 },
    Place { l: 1, t: 0, mr: 0, mb: 1 },
    Place { l: 0, t: 2, mr: 3, mb: 0 },
    Place { l: 2, t: 1, mr: 1, mb: 3 },
    Place { l: 1, t: 1, mr: 1, mb: 1 },
    Place { l: 0, t: 0, mr: 3, mb: 3 },
    Place { l: 2, t: 2, mr: 0, mb: 0 },
    Place { l: 1, t: 2, mr: 3, mb: 1 },
];

pub fn mapper(which: usize) -> &'static PixelComponentMapper {
    static M: [OnceLock<PixelComponentMapper>; 2] = [OnceLock::new(), OnceLock::new()];
    M[which].get_or_init(|| if which == 0 { create_srgb_mapper() } else { create_gamma_22_mapper() })
}

pub fn spare_for(k: usize, w: u32) -> usize {
    [1usize, w as usize, 3 * w as usize + 2][k % 3]
}

pub fn content(pt: PT, w: u32, h: u32, seed: u64) -> Raw {
    let mut l = Lcg::new(seed);
    let ck = pt.ck();
    // never equal to the sentinels in every byte, so stale data is visible. Alpha types get fully
    // opaque and fully transparent pixels on a fixed pattern (data-dependent shortcuts of the alpha
    // kernels - "opaque: nothing to multiply", "transparent: nothing to divide" - must still write).
    let nc = pt.ncomp();
    let amax = if ck == CK::F32 { 1.0 } else { ck.max() };
    Raw::from_fn(pt, w, h, |x, y, c| {
        let v = l.comp(ck);
        if pt.has_alpha() && c == nc - 1 {
            match (x + 3 * y) % 5 {
                0 => amax,
                1 => 0.0,
                _ => v,
            }
        } else {
            v
        }
    })
}

pub struct Outcome {
    pub result: Result<(), String>,
    pub rect: Raw,
    pub dirty: usize,
    pub first_dirty: Option<usize>,
    pub untouched: bool,
}

/// Run one operation through (src kind, dst kind) with the given sentinel.
#[allow(clippy::too_many_arguments)]
pub fn run_one(op: &mut OpSpec, typed: bool, sk: SrcK, dk: DstK, src: &Raw, dpt: PT, dw: u32, dh: u32, splace: Place, dplace: Place, spare_px: usize, mem: Mem, sentinel: u8) -> (Outcome, bool) {
    let ps = PhysSrc::new(src, sk, splace, mem);
    let before: Vec<u8> = ps.buf.as_ref().to_vec();
    let mut pd = PhysDst::new(dpt, dw, dh, dk, dplace, spare_px, mem, sentinel);
    let inplace = op.is_inplace();
    if inplace {
        pd.load(src);
    }
    let result = if typed {
        typed_call_pt(dpt, op, sk, if inplace { None } else { Some(&ps) }, dk, &mut pd)
    } else {
        dyn_call(op, sk, if inplace { None } else { Some(&ps) }, dk, &mut pd)
    };
    let (dirty, first_dirty) = pd.dirty_outside();
    let untouched = if inplace { pd.extract().bytes() == src.bytes() && dirty == 0 } else { pd.whole_untouched() };
    let src_same = ps.buf.as_ref() == &before[..];
    (Outcome { result, rect: pd.extract(), dirty, first_dirty, untouched }, src_same)
}

fn resize_algs() -> Vec<Alg> {
    vec![
        Alg::Nearest,
        Alg::Conv(F::Box),
        Alg::Conv(F::Lanczos3),
        Alg::Interp(F::Bilinear),
        Alg::SS(F::Box, 1),
        Alg::SS(F::Bilinear, 2),
        Alg::SS(F::CatmullRom, 3),
        Alg::SS(F::Hamming, 255),
        Alg::Conv(F::Mitchell),
        Alg::SS(F::Lanczos3, 1),
    ]
}

pub fn prop(tier: Tier, seed: u64) -> Prop {
    let mut p = Prop::new("C05");
    p.both_profiles = true;
    let bes = backends();
    let s: u32 = tier.pick(4, 6);

    // ---- (1) resize
    let algs = resize_algs();
    let n1 = (s + 1) as u64;
    let dims = vec![n1, n1, n1, n1, algs.len() as u64, 6];
    let (d1, a1, b1) = (dims.clone(), algs.clone(), bes.clone());
    p.spaces.push(Space::new("resize: (sw,sh,dw,dh) in (0..S)^4 x 10 algorithms x crop (x pixel types x destination kinds x sentinels inside)", product(&dims), move |idx, ctx| {
        let mut d = [0usize; 6];
        decode(idx, &d1, &mut d);
        let (sw, sh, dw, dh) = (d[0] as u32, d[1] as u32, d[2] as u32, d[3] as u32);
        let alg = a1[d[4]];
        // crop variants: none, integer sub-box, fractional, invalid
        let (cx, cy, valid_crop) = match d[5] {
            0 => (None, None, true),
            1 => (Some(Crop1 { start: 1.0, len: sw as f64 - 1.0 }), Some(Crop1 { start: 0.0, len: sh as f64 }), sw >= 2),
            2 => (Some(Crop1 { start: 0.25, len: sw as f64 - 0.5 }), Some(Crop1 { start: 0.5, len: sh as f64 - 0.5 }), sw >= 1 && sh >= 1),
            3 => (Some(Crop1 { start: 0.0, len: sw as f64 + 1.0 }), Some(Crop1 { start: 0.0, len: sh as f64 }), false),
            // integer origin, size a fraction of a pixel larger than the destination (truncation traps)
            4 => (Some(Crop1 { start: 0.0, len: dw as f64 + 0.5 }), Some(Crop1 { start: 0.0, len: dh as f64 + 0.25 }), dw >= 1 && dh >= 1 && dw as f64 + 0.5 <= sw as f64 && dh as f64 + 0.25 <= sh as f64),
            _ => (Some(Crop1 { start: 1.0, len: dw as f64 + (2.0f64).powi(-20) }), Some(Crop1 { start: 0.0, len: dh as f64 }), dw >= 1 && dh >= 1 && 1.0 + dw as f64 + (2.0f64).powi(-20) <= sw as f64 && dh <= sh),
        };
        if d[5] != 0 && d[5] != 3 && !valid_crop {
            return;
        }
        ctx.sample(|| json!({"src": [sw, sh], "dst": [dw, dh], "alg": format!("{:?}", alg), "crop_variant": d[5], "inside": "13 types (dynamic) + 6 types (typed) x destination kinds x sentinels {0x5A,0xA5}"}));
        if ctx.describe_only {
            return;
        }
        let mut o = Opts::new(alg);
        o.cx = cx;
        o.cy = cy;
        // "do nothing" applies when the destination or the (effective) crop box has a zero size
        let zero_dim = dw == 0 || dh == 0;
        let crop_zero = cx.map_or(sw == 0, |c| c.len == 0.0) || cy.map_or(sh == 0, |c| c.len == 0.0);
        for (pi, pt) in ALL_PT.iter().copied().enumerate() {
            o.alpha = pt.has_alpha() && (idx + pi as u64) % 2 == 0;
            let src = content(pt, sw, sh, seed ^ idx ^ ((pi as u64) << 40));
            let fo = o.to_fir(sw, sh);
            // baseline: exact borrowed slice, both sentinels
            let mut base: Option<Raw> = None;
            let typed_ok = TYPED_PTS.contains(&pt);
            let mut kinds: Vec<(bool, DstK)> = DYN_DST.iter().map(|k| (false, *k)).collect();
            if typed_ok {
                kinds.extend(TYPED_DST.iter().map(|k| (true, *k)));
            }
            for (ki, (typed, dk)) in kinds.into_iter().enumerate() {
                if dk.is_crop() && (dw == 0 || dh == 0) {
                    continue; // a zero-sized cropped view cannot be constructed
                }
                let all_be = matches!(dk, DstK::ImgSliceSpare | DstK::CropMutOfImg | DstK::TSliceSpare);
                for (bi, &be) in b1.iter().enumerate() {
                    if !all_be && bi != (pi + ki + idx as usize) % b1.len() {
                        continue;
                    }
                    for (si, sentinel) in [0x5Au8, 0xA5].into_iter().enumerate() {
                        let mut rz = new_resizer(be);
                        let mut op = OpSpec::Resize(&mut rz, fo);
                        let place = PLACES[(idx as usize + pi + ki) % PLACES.len()];
                        let sk = if typed { SrcK::TRef } else if (idx as usize + ki) % 3 == 0 && sw > 0 && sh > 0 { SrcK::CropOfRef } else { SrcK::RefNew };
                        let (out, src_same) = run_one(&mut op, typed, sk, dk, &src, pt, dw, dh, PLACES[(ki + 3) % PLACES.len()], place, spare_for(idx as usize + ki, dw), Mem::Plain, sentinel);
                        ctx.ops += 1;
                        let tag = |what: &str| format!("C05|resize|{}|{:?}|{}", crate::props::c01::alg_class(alg), dk, what);
                        let det = |extra: serde_json::Value| {
                            json!({"src": [sw, sh], "dst": [dw, dh], "alg": format!("{:?}", alg), "crop_variant": d[5], "pixel": format!("{:?}", pt), "backend": format!("{:?}", be), "dst_kind": format!("{:?}", dk), "typed_entry": typed,
                                   "place": format!("{:?}", place), "sentinel": sentinel, "alpha": o.alpha, "more": extra})
                        };
                        if !src_same {
                            ctx.violation(tag("source modified"), || det(json!({})));
                        }
                        let expect_err = d[5] == 3 && !zero_dim && !crop_zero;
                        match &out.result {
                            Err(e) => {
                                if !expect_err {
                                    ctx.violation(tag("valid call failed"), || det(json!({"err": e})));
                                }
                                if !out.untouched {
                                    ctx.violation(tag("destination modified although the call returned an error"), || det(json!({"err": e})));
                                }
                                continue;
                            }
                            Ok(()) => {
                                if expect_err {
                                    ctx.violation(tag("invalid crop accepted"), || det(json!({})));
                                    continue;
                                }
                            }
                        }
                        if zero_dim || crop_zero {
                            if !out.untouched {
                                ctx.violation(tag("destination modified although a dimension is zero"), || det(json!({})));
                            }
                            continue;
                        }
                        if out.dirty > 0 {
                            ctx.violation(tag("bytes outside the destination rectangle changed"), || det(json!({"dirty_bytes": out.dirty, "first_offset": out.first_dirty})));
                        }
                        match &base {
                            None => base = Some(out.rect.clone()),
                            Some(b) => {
                                // byte equality for every kind, sentinel and back-end: integer types are
                                // back-end independent (C02); floats are compared per back-end only
                                let comparable = pt.ck().is_int() && !(o.alpha && pt.ck() == CK::U16) || bi == (pi + idx as usize) % b1.len();
                                if comparable && b.bytes() != out.rect.bytes() && (pt.ck().is_int() && !(o.alpha && pt.ck() == CK::U16)) {
                                    let stale = out.rect.bytes().iter().filter(|x| **x == sentinel).count();
                                    ctx.violation(tag(if stale > 0 { "stale destination pixels (result depends on the previous content / differs from the exact-buffer result)" } else { "result differs from the exact-buffer result" }), || {
                                        det(json!({"baseline": b.bytes().iter().take(48).collect::<Vec<_>>(), "got": out.rect.bytes().iter().take(48).collect::<Vec<_>>(), "sentinel_index": si}))
                                    });
                                }
                            }
                        }
                        // stale detection independent of the baseline: the same kind under the other sentinel
                        ctx.outcome(fnv(out.rect.bytes()));
                    }
                }
            }
            // float types: compare the two sentinels of one kind/back-end directly
            if !pt.ck().is_int() || (o.alpha && pt.ck() == CK::U16) {
                for &be in b1.iter() {
                    let mut outs = vec![];
                    for sentinel in [0x5Au8, 0xA5] {
                        let mut rz = new_resizer(be);
                        let mut op = OpSpec::Resize(&mut rz, fo);
                        let dkf = if dw == 0 || dh == 0 { DstK::ImgSliceSpare } else { DstK::CropMutOfImg };
                        let (out, _) = run_one(&mut op, false, SrcK::RefNew, dkf, &src, pt, dw, dh, Place::NONE, PLACES[3], 2, Mem::Plain, sentinel);
                        ctx.ops += 1;
                        outs.push(out);
                    }
                    if outs[0].result.is_ok() && !zero_dim && !crop_zero && d[5] != 3 && outs[0].rect.bytes() != outs[1].rect.bytes() {
                        ctx.violation(format!("C05|resize|{}|CropMutOfImg|stale destination pixels (result depends on the previous content)", crate::props::c01::alg_class(alg)), || {
                            json!({"src": [sw, sh], "dst": [dw, dh], "alg": format!("{:?}", alg), "pixel": format!("{:?}", pt), "backend": format!("{:?}", be)})
                        });
                    }
                }
            }
            ctx.class(mix(mix(pt.idx() as u64, d[4] as u64), mix(d[5] as u64, (zero_dim as u64) * 2 + o.alpha as u64)));
        }
        ctx.nontrivial += 1;
    }).isolated());

    // ---- (2) alpha operations, mappers, component conversion
    let n2 = (s + 2) as u64;
    let dims2 = vec![n2, n2, 9];
    let (d2, b2) = (dims2.clone(), bes.clone());
    p.spaces.push(Space::new("alpha / mapper / component-type operations: (w,h) in (0..S+1)^2 x 9 operations (x pixel types x destination kinds x sentinels inside)", product(&dims2), move |idx, ctx| {
        let mut d = [0usize; 3];
        decode(idx, &d2, &mut d);
        let (w, h, opk) = (d[0] as u32, d[1] as u32, d[2]);
        const OPS: [&str; 9] = ["multiply_alpha", "divide_alpha", "multiply_alpha_inplace", "divide_alpha_inplace", "forward_map", "backward_map", "forward_map_inplace", "backward_map_inplace", "change_type"];
        ctx.sample(|| json!({"size": [w, h], "operation": OPS[opk]}));
        if ctx.describe_only {
            return;
        }
        let zero_dim = w == 0 || h == 0;
        for (pi, pt) in ALL_PT.iter().copied().enumerate() {
            let src = content(pt, w, h, seed ^ idx ^ ((pi as u64) << 36));
            // destination pixel types to try
            let dpts: Vec<PT> = match opk {
                4 | 5 => ALL_PT.iter().copied().filter(|q| q.ncomp() == pt.ncomp() && matches!(q.ck(), CK::U8 | CK::U16)).collect(),
                8 => ALL_PT.iter().copied().filter(|q| q.ncomp() == pt.ncomp()).collect(),
                _ => vec![pt],
            };
            for dpt in dpts {
                let supported = match opk {
                    0..=3 => pt.has_alpha(),
                    4..=7 => matches!(pt.ck(), CK::U8 | CK::U16),
                    _ => pt.ncomp() == 1 || (pt.ck() != CK::I32 && dpt.ck() != CK::I32),
                };
                let mut base: Option<Raw> = None;
                let typed_ok = TYPED_PTS.contains(&pt) && opk <= 3;
                let mut kinds: Vec<(bool, DstK)> = DYN_DST.iter().map(|k| (false, *k)).collect();
                if typed_ok {
                    kinds.extend(TYPED_DST.iter().map(|k| (true, *k)));
                }
                for (ki, (typed, dk)) in kinds.into_iter().enumerate() {
                    if dk.is_crop() && zero_dim {
                        continue;
                    }
                    let be = b2[(pi + ki + idx as usize) % b2.len()];
                    // same kind, same back-end, other sentinel: must be bit-identical for every type
                    let mut first_fill: Option<Raw> = None;
                    for sentinel in [0x5Au8, 0xA5] {
                        let md = mul_div(be);
                        let mp = mapper((idx as usize + pi) % 2);
                        let mut op = match opk {
                            0 => OpSpec::MulAlpha(&md),
                            1 => OpSpec::DivAlpha(&md),
                            2 => OpSpec::MulAlphaInplace(&md),
                            3 => OpSpec::DivAlphaInplace(&md),
                            4 => OpSpec::MapFwd(mp),
                            5 => OpSpec::MapBwd(mp),
                            6 => OpSpec::MapFwdInplace(mp),
                            7 => OpSpec::MapBwdInplace(mp),
                            _ => OpSpec::ChangeType,
                        };
                        let place = PLACES[(idx as usize + pi + ki) % PLACES.len()];
                        let sk = if typed { SrcK::TRef } else { SrcK::RefNew };
                        let (out, src_same) = run_one(&mut op, typed, sk, dk, &src, dpt, w, h, Place::NONE, place, spare_for(idx as usize + ki, w.max(1)), Mem::Plain, sentinel);
                        ctx.ops += 1;
                        let tag = |what: &str| format!("C05|{}|{:?}|{}", OPS[opk], dk, what);
                        let det = |extra: serde_json::Value| {
                            json!({"size": [w, h], "operation": OPS[opk], "src_pixel": format!("{:?}", pt), "dst_pixel": format!("{:?}", dpt), "backend": format!("{:?}", be), "dst_kind": format!("{:?}", dk), "typed_entry": typed, "place": format!("{:?}", place), "sentinel": sentinel, "more": extra})
                        };
                        if !src_same {
                            ctx.violation(tag("source modified"), || det(json!({})));
                        }
                        match &out.result {
                            Err(e) => {
                                if supported {
                                    ctx.violation(tag("supported call failed"), || det(json!({"err": e})));
                                }
                                if !out.untouched {
                                    ctx.violation(tag("destination modified although the call returned an error"), || det(json!({"err": e})));
                                }
                                continue;
                            }
                            Ok(()) => {
                                if !supported {
                                    // acceptance of unsupported types is C06/C16/C17's business
                                    continue;
                                }
                            }
                        }
                        if zero_dim {
                            if !out.untouched {
                                ctx.violation(tag("destination modified although a dimension is zero"), || det(json!({})));
                            }
                            continue;
                        }
                        if out.dirty > 0 {
                            ctx.violation(tag("bytes outside the destination rectangle changed"), || det(json!({"dirty_bytes": out.dirty, "first_offset": out.first_dirty})));
                        }
                        match &first_fill {
                            None => first_fill = Some(out.rect.clone()),
                            Some(f) => {
                                if f.bytes() != out.rect.bytes() {
                                    ctx.violation(tag("result depends on what the destination held before (stale component or pixel)"), || {
                                        det(json!({"with_fill_0x5A": f.bytes().iter().take(48).collect::<Vec<_>>(), "with_fill_0xA5": out.rect.bytes().iter().take(48).collect::<Vec<_>>()}))
                                    });
                                }
                            }
                        }
                        let exact = pt.ck().is_int() && !(pt.ck() == CK::U16 && (opk == 1 || opk == 3));
                        match &base {
                            None => base = Some(out.rect.clone()),
                            Some(b) => {
                                if exact && b.bytes() != out.rect.bytes() {
                                    ctx.violation(tag("result differs from the exact-buffer result (stale or misplaced pixels)"), || {
                                        det(json!({"baseline": b.bytes().iter().take(48).collect::<Vec<_>>(), "got": out.rect.bytes().iter().take(48).collect::<Vec<_>>()}))
                                    });
                                }
                            }
                        }
                        ctx.outcome(fnv(out.rect.bytes()));
                    }
                }
                ctx.class(mix(mix(pt.idx() as u64, dpt.idx() as u64), mix(opk as u64 + 50, zero_dim as u64)));
            }
        }
        ctx.nontrivial += 1;
    }).isolated());

    // rayon leg ("for all thread counts"): lives in the real-rayon workspace
    let t = tier.name();
    if crate::profile_name() == "release" {
        // (the engine is a release build of its own; running it from the debug-profile pass too would repeat it)
        p.extra.push(Box::new(move |_| crate::props::c08::run_engine_for("C05", crate::props::c08::RAYON_REL, &["c05", t], &[], "destinations under real rayon")));
    }
    p.rule = "resize: every (sw,sh,dw,dh) in (0..S)^4 (zero dimensions included) x 10 algorithms (Nearest, Convolution, Interpolation, SuperSampling with multiplicity 1,2,3,255) x 4 crop variants (none, integer, fractional, invalid) x 13 pixel types x destination kinds {owned, Vec with spare capacity, exact slice, slice with 1 / w / 3w+2 spare pixels, mutable cropped view at 8 placements/margins, typed slice / buffer / cropped / nested-cropped views} x sentinels {0x5A,0xA5}; alpha multiply/divide (two-image and in place), colour mapping forward/backward (two-image and in place) and component conversion on sizes (0..S+1)^2. Oracle: bytes outside the rectangle keep the sentinel, the rectangle equals the exact-buffer result under both sentinels, the source is unchanged, an error or a zero dimension leaves the destination untouched".into();
    p.bounds = json!({"S": s});
    p.assumptions = vec!["thread counts: the rayon leg runs the band bodies under the real rayon (pool sizes 2..7 quick, 2..32 thorough) on plain, trait-default and cropped destinations under two previous contents and compares the whole parent buffer with the pool of one; the OS schedule is uncontrolled there (schedule independence is C08's loom exploration)".into(), "SuperSampling multiplicity 0 is outside the statement (m >= 1)".into()];
    p
}
