//! C01 — convolution resizing equals the ideal separable filter within rounding error.
use crate::alg::*;
use crate::conv::*;
use crate::explore::*;
use crate::ideal::*;
use crate::px::*;
use crate::{Prop, Tier};
use serde_json::json;

/// One 1-D geometry: all component kinds, pixel types, back-ends, both orientations.
pub fn check_1d(ctx: &mut Ctx, n_in: u32, crop: Crop1, n_out: u32, alg: Alg, pts: &[PT], bes: &[BE], lcg_rows: usize, seed: u64, prop: &str) {
    let f = alg.filter().unwrap();
    let adaptive = adaptive_of(alg);
    let Some(wins) = windows_for(n_in, crop, n_out, f, adaptive) else {
        ctx.note("geometries without a defined ideal (zero weight sum / too many ambiguous taps)", 1);
        return;
    };
    let d = dump_for(n_in, crop, n_out, f, adaptive);
    let amb = is_ambiguous(&wins);
    if amb {
        ctx.note("geometries with a sample centre on a kernel discontinuity (bound widened)", 1);
    }
    let identity = axis_is_identity(crop, n_out);
    for ck in [CK::U8, CK::U16, CK::I32, CK::F32] {
        let these: Vec<PT> = pts.iter().copied().filter(|p| p.ck() == ck).collect();
        if these.is_empty() {
            continue;
        }
        let rows = content_rows(ck, n_in as usize, Some(&wins), lcg_rows, seed);
        let prec = if identity { 60 } else { precision_for(ck, &d) };
        // expected intervals per content row
        let exp: Vec<Vec<Iv>> = rows
            .iter()
            .map(|r| {
                let line: Vec<Iv> = r.iter().map(|&v| Iv { lo: v, hi: v }).collect();
                if identity {
                    wins.iter().map(|a| line[a[0].start]).collect()
                } else {
                    pass_line(&line, &wins, ck, prec)
                }
            })
            .collect();
        let h = rows.len();
        for &pt in these.iter() {
            let nc = pt.ncomp();
            for &be in bes.iter() {
                if ck == CK::I32 && be != BE::None {
                    continue;
                }
                let mut rz = new_resizer(be);
                for orient in [Orient::Horiz, Orient::Vert] {
                    let src = build_1d(pt, &rows, orient);
                    let dst = run_1d(&mut rz, &src, orient, crop, n_out, alg, false);
                    ctx.ops += 1;
                    let mut worst = 0.0f64;
                    let mut tight = 0u64;
                    let mut first: Option<(usize, usize, usize, f64)> = None;
                    for line in 0..h {
                        for c in 0..nc {
                            let e = &exp[(line + 7 * c) % h];
                            for j in 0..n_out as usize {
                                let got = get_1d(&dst, orient, line, j, c);
                                let o = outside(e[j], got);
                                if !amb && e[j].hi > e[j].lo && e[j].hi.is_finite() {
                                    // tightness of the oracle: distance from the ideal value relative to the bound
                                    let half = (e[j].hi - e[j].lo) / 2.0;
                                    let r = ((got - (e[j].hi + e[j].lo) / 2.0).abs() / half * 1000.0) as u64;
                                    if r > tight && r <= 1000 {
                                        tight = r;
                                    }
                                }
                                if o > 0.0 {
                                    if first.is_none() {
                                        first = Some((line, j, c, got));
                                    }
                                    worst = worst.max(o);
                                }
                            }
                        }
                    }
                    ctx.traces += (h * nc * n_out as usize) as u64;
                    ctx.note_max(&format!("max:largest |error|/bound seen, permille ({:?})", ck), tight);
                    if let Some((line, j, c, got)) = first {
                        let row = (line + 7 * c) % h;
                        let e = exp[row][j];
                        let class = if ck.is_int() { if worst > 1.0 { "off by more than a unit" } else { "beyond the rounding bound" } } else { "beyond the f32 bound" };
                        ctx.violation(format!("{}|1-D {:?}|{:?}|{:?}|{:?}|{}", prop, orient, alg_class(alg), pt, be, class), || {
                            json!({"n_in": n_in, "crop": [crop.start, crop.len], "n_out": n_out, "alg": format!("{:?}", alg), "pixel": format!("{:?}", pt), "backend": format!("{:?}", be),
                                   "orientation": format!("{:?}", orient), "content_row": rows[row], "sample": j, "channel": c, "got": got, "ideal_interval": [e.lo, e.hi], "excess": worst,
                                   "precision": prec, "ambiguous_geometry": amb})
                        });
                    }
                    ctx.outcome(fnv(dst.bytes()));
                    let kl = wins.iter().map(|a| a[0].w.iter().filter(|w| **w != 0.0).count()).max().unwrap_or(0);
                    ctx.class(mix(mix(pt.idx() as u64, be as u64), mix((kl % 16) as u64 + 16 * (orient == Orient::Vert) as u64, mix(prec as u64, ((n_out % 8) as u64) << 8 | (n_in % 32) as u64))));
                }
            }
        }
    }
}

pub fn alg_class(alg: Alg) -> String {
    match alg {
        Alg::Nearest => "Nearest".into(),
        Alg::Conv(f) => format!("Conv({:?})", f),
        Alg::Interp(f) => format!("Interp({:?})", f),
        Alg::SS(f, m) => format!("SS({:?},{})", f, m),
    }
}

/// Content generators of the 2-D family (values per channel).
fn content_2d(pt: PT, w: u32, h: u32, kind: usize, seed: u64) -> Raw {
    let ck = pt.ck();
    let (hi, lo) = hi_lo(ck);
    match kind {
        0 => Raw::from_fn(pt, w, h, |x, y, c| if (x + y + c as u32) % 2 == 0 { hi } else { lo }),
        1 => Raw::from_fn(pt, w, h, |x, y, c| if (x / 2 + y + c as u32) % 2 == 0 { hi } else { (hi + lo) / 2.0 + if ck.is_int() { 0.5 } else { 0.0 } }.floor_if(ck)),
        _ => {
            let mut l = Lcg::new(seed ^ ((w as u64) << 20) ^ ((h as u64) << 8) ^ kind as u64);
            Raw::from_fn(pt, w, h, |_, _, _| l.comp(ck))
        }
    }
}

trait FloorIf {
    fn floor_if(self, ck: CK) -> f64;
}
impl FloorIf for f64 {
    fn floor_if(self, ck: CK) -> f64 {
        if ck.is_int() {
            self.floor()
        } else {
            self
        }
    }
}

/// Two-pass interval oracle in one pass order. `src[y][x]` are intervals.
fn two_pass(src: &[Vec<Iv>], wx: Option<(&Wins, u32)>, wy: Option<(&Wins, u32)>, ck: CK, horiz_first: bool) -> Vec<Vec<Iv>> {
    let apply_x = |img: &[Vec<Iv>]| -> Vec<Vec<Iv>> {
        match wx {
            None => img.to_vec(),
            Some((w, p)) => img.iter().map(|row| pass_line(row, w, ck, p)).collect(),
        }
    };
    let apply_y = |img: &[Vec<Iv>]| -> Vec<Vec<Iv>> {
        match wy {
            None => img.to_vec(),
            Some((w, p)) => {
                let width = img[0].len();
                let mut cols: Vec<Vec<Iv>> = vec![];
                for x in 0..width {
                    let col: Vec<Iv> = img.iter().map(|r| r[x]).collect();
                    cols.push(pass_line(&col, w, ck, p));
                }
                let hout = cols[0].len();
                (0..hout).map(|y| (0..width).map(|x| cols[x][y]).collect()).collect()
            }
        }
    };
    if horiz_first {
        apply_y(&apply_x(src))
    } else {
        apply_x(&apply_y(src))
    }
}

/// Select sub-image for an identity axis (C12): rows/cols [start, start+n).
fn crop_identity(img: &[Vec<Iv>], cx: Option<(usize, usize)>, cy: Option<(usize, usize)>) -> Vec<Vec<Iv>> {
    let rows: Vec<&Vec<Iv>> = match cy {
        Some((s, n)) => img[s..s + n].iter().collect(),
        None => img.iter().collect(),
    };
    rows.into_iter()
        .map(|r| match cx {
            Some((s, n)) => r[s..s + n].to_vec(),
            None => r.clone(),
        })
        .collect()
}

#[allow(clippy::too_many_arguments)]
pub fn check_2d(ctx: &mut Ctx, sw: u32, sh: u32, dw: u32, dh: u32, cx: Crop1, cy: Crop1, alg: Alg, pts: &[PT], bes: &[BE], contents: usize, seed: u64) {
    let f = alg.filter().unwrap();
    // SuperSampling: documented intermediate image
    let (step1, adaptive) = match alg {
        Alg::SS(_, m) => (supersampling_tmp_size(cx.len, cy.len, dw, dh, m), true),
        Alg::Interp(_) => (None, false),
        _ => (None, true),
    };
    // geometry of the convolution step
    let (cw_in, ch_in, ccx, ccy) = match step1 {
        Some((tw, th)) => (tw, th, Crop1 { start: 0.0, len: tw as f64 }, Crop1 { start: 0.0, len: th as f64 }),
        None => (sw, sh, cx, cy),
    };
    // nearest index maps for step 1
    let mut xmap: Vec<u32> = vec![];
    let mut ymap: Vec<u32> = vec![];
    if let Some((tw, th)) = step1 {
        for j in 0..tw {
            let (i, amb) = nearest_index(sw, cx, tw, j);
            if amb {
                ctx.note("supersampling cases skipped: intermediate nearest index within fp noise of an integer", 1);
                return;
            }
            xmap.push(i);
        }
        for j in 0..th {
            let (i, amb) = nearest_index(sh, cy, th, j);
            if amb {
                ctx.note("supersampling cases skipped: intermediate nearest index within fp noise of an integer", 1);
                return;
            }
            ymap.push(i);
        }
    }
    let idx_x = axis_is_identity(ccx, dw);
    let idx_y = axis_is_identity(ccy, dh);
    let wins_x = if idx_x { None } else { ideal_windows(cw_in, ccx, dw, f, adaptive) };
    let wins_y = if idx_y { None } else { ideal_windows(ch_in, ccy, dh, f, adaptive) };
    if (!idx_x && wins_x.is_none()) || (!idx_y && wins_y.is_none()) {
        ctx.note("geometries without a defined ideal (zero weight sum / too many ambiguous taps)", 1);
        return;
    }
    let dx = if idx_x { None } else { Some(dump_for(cw_in, ccx, dw, f, adaptive)) };
    let dy = if idx_y { None } else { Some(dump_for(ch_in, ccy, dh, f, adaptive)) };
    for &pt in pts {
        let ck = pt.ck();
        let nc = pt.ncomp();
        let px = dx.as_ref().map(|d| precision_for(ck, d)).unwrap_or(0);
        let py = dy.as_ref().map(|d| precision_for(ck, d)).unwrap_or(0);
        for kind in 0..contents {
            let src = content_2d(pt, sw, sh, kind, seed);
            // expected intervals per channel, both pass orders
            let mut exp: Vec<(Vec<Vec<Iv>>, Vec<Vec<Iv>>)> = vec![];
            for c in 0..nc {
                let full: Vec<Vec<Iv>> = match step1 {
                    Some((tw, th)) => (0..th as usize)
                        .map(|y| (0..tw as usize).map(|x| { let v = src.get(xmap[x], ymap[y], c); Iv { lo: v, hi: v } }).collect())
                        .collect(),
                    None => (0..sh).map(|y| (0..sw).map(|x| { let v = src.get(x, y, c); Iv { lo: v, hi: v } }).collect()).collect(),
                };
                let img = crop_identity(
                    &full,
                    if idx_x { Some((ccx.start as usize, dw as usize)) } else { None },
                    if idx_y { Some((ccy.start as usize, dh as usize)) } else { None },
                );
                let wx = wins_x.as_ref().map(|w| (w, px));
                let wy = wins_y.as_ref().map(|w| (w, py));
                let hv = two_pass(&img, wx, wy, ck, true);
                let vh = two_pass(&img, wx, wy, ck, false);
                exp.push((hv, vh));
            }
            for &be in bes {
                if ck == CK::I32 && be != BE::None {
                    continue;
                }
                let mut rz = new_resizer(be);
                let mut o = Opts::new(alg);
                o.cx = Some(cx);
                o.cy = Some(cy);
                let sentinel = 0x5Au8;
                let mut dst = Raw::filled(pt, dw, dh, sentinel);
                let r = resize_into(&mut rz, &src, &mut dst, &o);
                ctx.ops += 1;
                if let Err(e) = r {
                    ctx.violation(format!("C01|2-D|{}|valid geometry rejected", alg_class(alg)), || json!({"err": format!("{:?}", e), "src": [sw, sh], "dst": [dw, dh], "crop": [cx.start, cy.start, cx.len, cy.len]}));
                    continue;
                }
                let mut first: Option<(u32, u32, usize, f64, f64)> = None;
                for y in 0..dh {
                    for x in 0..dw {
                        for c in 0..nc {
                            let got = dst.get(x, y, c);
                            let a = outside(exp[c].0[y as usize][x as usize], got);
                            let b = outside(exp[c].1[y as usize][x as usize], got);
                            let ex = a.min(b);
                            if ex > 0.0 && first.is_none() {
                                first = Some((x, y, c, got, ex));
                            }
                        }
                    }
                }
                ctx.traces += (dw * dh) as u64 * nc as u64;
                if let Some((x, y, c, got, ex)) = first {
                    let (e1, e2) = (exp[c].0[y as usize][x as usize], exp[c].1[y as usize][x as usize]);
                    let class = if ck.is_int() { if ex > 1.0 { "off by more than a unit" } else { "beyond the rounding bound" } } else { "beyond the f32 bound" };
                    ctx.violation(format!("C01|2-D|{}|{:?}|{:?}|{}", alg_class(alg), pt, be, class), || {
                        json!({"src": [sw, sh], "dst": [dw, dh], "crop": [cx.start, cy.start, cx.len, cy.len], "alg": format!("{:?}", alg), "pixel": format!("{:?}", pt), "backend": format!("{:?}", be),
                               "content": kind, "at": [x, y, c], "got": got, "interval_horizontal_first": [e1.lo, e1.hi], "interval_vertical_first": [e2.lo, e2.hi], "excess": ex,
                               "intermediate": format!("{:?}", step1), "source_bytes": src.bytes().iter().take(64).collect::<Vec<_>>()})
                    });
                }
                ctx.outcome(fnv(dst.bytes()));
                ctx.class(mix(mix(pt.idx() as u64 + 500, be as u64), mix(step1.is_some() as u64 * 4 + idx_x as u64 * 2 + idx_y as u64, mix(px as u64, py as u64))));
            }
        }
    }
}

/// Geometry of the convolution step of a resize: (in_w, in_h, crop_x, crop_y, intermediate size).
pub fn conv_step_geometry(sw: u32, sh: u32, dw: u32, dh: u32, cx: Crop1, cy: Crop1, alg: Alg) -> (u32, u32, Crop1, Crop1, Option<(u32, u32)>) {
    let step1 = match alg {
        Alg::SS(_, m) => supersampling_tmp_size(cx.len, cy.len, dw, dh, m),
        _ => None,
    };
    match step1 {
        Some((tw, th)) => (tw, th, Crop1 { start: 0.0, len: tw as f64 }, Crop1 { start: 0.0, len: th as f64 }, step1),
        None => (sw, sh, cx, cy, None),
    }
}

/// Head-room premise of the fixed-point design: every normalised window has Σ|w| < 4.
pub fn within_headroom(n_in: u32, crop: Crop1, n_out: u32, f: F, adaptive: bool) -> bool {
    if axis_is_identity(crop, n_out) {
        return true;
    }
    let d = dump_for(n_in, crop, n_out, f, adaptive);
    (0..d.bounds.len()).all(|j| crate::coef::sum_abs(&d, j) < 3.999)
}

pub fn all_algs(ms: &[u8]) -> Vec<Alg> {
    let mut v = vec![];
    for f in FILT {
        v.push(Alg::Conv(f));
        v.push(Alg::Interp(f));
        for &m in ms {
            v.push(Alg::SS(f, m));
        }
    }
    v
}

pub fn prop(tier: Tier, seed: u64) -> Prop {
    let mut p = Prop::new("C01");
    let bes = backends();
    let n: u32 = tier.pick(12, 32);
    let m: u32 = tier.pick(4, 7);
    let lcg_rows = tier.pick(2, 6);

    // ---- 1-D families (horizontal and vertical in the same case)
    let algs1: Vec<Alg> = FILT.iter().flat_map(|f| [Alg::Conv(*f), Alg::Interp(*f)]).collect();
    let max_crops = 17u64;
    let dims = vec![n as u64, n as u64, max_crops, algs1.len() as u64];
    let (d1, a1, b1) = (dims.clone(), algs1.clone(), bes.clone());
    p.spaces.push(Space::new("1-D single pass: n_in x n_out x CROP1 x filter x {Conv,Interp} (x 13 types x back-ends x 2 orientations inside)", product(&dims), move |idx, ctx| {
        let mut d = [0usize; 4];
        decode(idx, &d1, &mut d);
        let (n_in, n_out) = (d[0] as u32 + 1, d[1] as u32 + 1);
        let crops = crop1_alphabet(n_in);
        if d[2] >= crops.len() {
            return;
        }
        let crop = crops[d[2]];
        let alg = a1[d[3]];
        ctx.sample(|| json!({"n_in": n_in, "n_out": n_out, "crop": [crop.start, crop.len], "alg": format!("{:?}", alg), "contents": "identity, constants, adv+/-(j), extremes, lcg", "types": "all 13", "backends": format!("{:?}", b1)}));
        if ctx.describe_only {
            return;
        }
        check_1d(ctx, n_in, crop, n_out, alg, &ALL_PT, &b1, lcg_rows, seed, "C01");
        ctx.nontrivial += 1;
    }).isolated());

    // ---- sparse long-kernel family
    let long_in: Vec<u32> = tier.pick(vec![64, 255, 1000], vec![64, 100, 255, 256, 1000, 4097]);
    let long_out: Vec<u32> = vec![1, 2, 3, 7];
    let dims2 = vec![long_in.len() as u64, long_out.len() as u64, 7];
    let (d2, li, lo, b2) = (dims2.clone(), long_in.clone(), long_out.clone(), bes.clone());
    p.spaces.push(Space::new("1-D long kernels: n_in in {64..4097} x n_out in {1,2,3,7} x filter", product(&dims2), move |idx, ctx| {
        let mut d = [0usize; 3];
        decode(idx, &d2, &mut d);
        let (n_in, n_out, f) = (li[d[0]], lo[d[1]], FILT[d[2]]);
        ctx.sample(|| json!({"n_in": n_in, "n_out": n_out, "alg": format!("Conv({:?})", f)}));
        if ctx.describe_only {
            return;
        }
        let pts = [PT::U8, PT::U8x3, PT::U8x4, PT::U16, PT::U16x3, PT::I32, PT::F32, PT::F32x2];
        // only a few content rows matter here: use the generic rows but a type subset
        check_1d(ctx, n_in, Crop1 { start: 0.0, len: n_in as f64 }, n_out, Alg::Conv(f), &pts, &b2, 1, seed, "C01");
        ctx.nontrivial += 1;
    }).isolated());

    // ---- 2-D family incl. SuperSampling
    let algs2 = all_algs(&[1, 2, 3]);
    let dims3 = vec![m as u64, m as u64, m as u64, m as u64, 8, algs2.len() as u64];
    let (d3, a2, b3) = (dims3.clone(), algs2.clone(), bes.clone());
    p.spaces.push(Space::new("2-D: (w_in,h_in,w_out,h_out) x crop pairs x all algorithms incl. SuperSampling m=1,2,3", product(&dims3), move |idx, ctx| {
        let mut d = [0usize; 6];
        decode(idx, &d3, &mut d);
        let (sw, sh, dw, dh) = (d[0] as u32 + 1, d[1] as u32 + 1, d[2] as u32 + 1, d[3] as u32 + 1);
        let (cxs, cys) = (crop1_small(sw), crop1_small(sh));
        // five crop pairs: (full,full), (k,k) ...
        let k = d[4];
        let (cx, cy) = match k {
            0 => (cxs[0], cys[0]),
            // a *square* crop box with left == top inside a non-square source, and the same box one
            // pixel in: the two axes then share every parameter except the source extent (which is
            // what clamps the windows at the image border)
            6 | 7 => {
                let m = sw.min(sh);
                let o = (k - 6) as u32;
                if sw == sh || m <= o {
                    return;
                }
                (Crop1 { start: o as f64, len: (m - o) as f64 }, Crop1 { start: o as f64, len: (m - o) as f64 })
            }
            _ => {
                if k >= cxs.len() && k >= cys.len() {
                    return;
                }
                (cxs[k % cxs.len()], cys[(k + 1) % cys.len()])
            }
        };
        let alg = a2[d[5]];
        ctx.sample(|| json!({"src": [sw, sh], "dst": [dw, dh], "crop": [cx.start, cy.start, cx.len, cy.len], "alg": format!("{:?}", alg), "contents": ["extremes", "checker", "lcg"], "types": "all 13"}));
        if ctx.describe_only {
            return;
        }
        check_2d(ctx, sw, sh, dw, dh, cx, cy, alg, &ALL_PT, &b3, 3, seed);
        ctx.nontrivial += 1;
    }).isolated());

    // ---- larger 2-D SuperSampling cases (two-step path needs a scale > 1.2*m)
    let big: Vec<(u32, u32, u32, u32)> = vec![(8, 8, 4, 4), (9, 7, 2, 3), (16, 5, 3, 2), (12, 12, 5, 4), (7, 13, 2, 2), (20, 20, 3, 3), (13, 9, 4, 3), (33, 4, 5, 1)];
    let dims4 = vec![big.len() as u64, 7, 4];
    let (d4, b4) = (dims4.clone(), bes.clone());
    p.spaces.push(Space::new("2-D SuperSampling two-step cases: 8 shapes x filter x m in {1,2,3,255}", product(&dims4), move |idx, ctx| {
        let mut d = [0usize; 3];
        decode(idx, &d4, &mut d);
        let (sw, sh, dw, dh) = big[d[0]];
        let alg = Alg::SS(FILT[d[1]], [1u8, 2, 3, 255][d[2]]);
        ctx.sample(|| json!({"src": [sw, sh], "dst": [dw, dh], "alg": format!("{:?}", alg)}));
        if ctx.describe_only {
            return;
        }
        for (cx, cy) in [(Crop1 { start: 0.0, len: sw as f64 }, Crop1 { start: 0.0, len: sh as f64 }), (Crop1 { start: 0.5, len: sw as f64 - 1.0 }, Crop1 { start: 1.0, len: sh as f64 - 1.0 })] {
            check_2d(ctx, sw, sh, dw, dh, cx, cy, alg, &ALL_PT, &b4, 3, seed);
        }
        ctx.nontrivial += 1;
    }).isolated());

    // ---- model: the quantisation the error bound relies on. The bound of the other spaces takes the
    // precision p from the implementation; here p itself is judged: every coefficient is the f64
    // weight rounded to nearest at scale 2^p, fits its word, and p is as large as that word allows
    // (i16 for 8-bit data with p <= 21, i32 for 16-bit data with p <= 45).
    {
        // the same geometry family as C10's model space; thorough: sizes up to 96 (+ the large sizes against 1..16)
        let (ms, mt): (u32, u32) = tier.pick((30, 4), (96, 16));
        let pairs = crate::props::c10::model_pairs_st(ms, mt);
        let dimsq = vec![pairs.len() as u64, 7, 2];
        let dq = dimsq.clone();
        p.spaces.push(Space::new("model: coefficient quantisation (round-to-nearest at scale 2^p, p maximal for the coefficient word) for every geometry x filter x CROP1", product(&dimsq), move |idx, ctx| {
            let mut d = [0usize; 3];
            decode(idx, &dq, &mut d);
            let ((n_in, n_out), f, adaptive) = (pairs[d[0]], FILT[d[1]], d[2] == 0);
            ctx.sample(|| json!({"n_in": n_in, "n_out": n_out, "filter": format!("{:?}", f), "adaptive": adaptive, "crops": "CROP1(n_in)"}));
            if ctx.describe_only {
                return;
            }
            for crop in crate::props::c10::model_crops(n_in) {
                let dump = crate::coef::dump(&crate::coef::Geo { n_in, crop, n_out, f, adaptive }, true, true);
                ctx.ops += dump.bounds.len() as u64;
                ctx.nontrivial += 1;
                let mut wmax = f64::NEG_INFINITY;
                let mut wabs: f64 = 0.0;
                let mut finite = true;
                for j in 0..dump.bounds.len() {
                    for &w in crate::coef::weights(&dump, j).1 {
                        finite &= w.is_finite();
                        wmax = wmax.max(w);
                        wabs = wabs.max(w.abs());
                    }
                }
                if !finite || dump.bounds.is_empty() || wabs == 0.0 {
                    ctx.note("geometries without a defined weight (empty or non-finite windows)", 1);
                    continue;
                }
                let det = |what: &str, extra: serde_json::Value| json!({"n_in": n_in, "crop": [crop.start, crop.len], "n_out": n_out, "filter": format!("{:?}", f), "adaptive": adaptive, "largest_weight": wmax, "precision16": dump.precision16, "precision32": dump.precision32, "what": what, "more": extra});
                for (bits, p, cap, word) in [(16u32, dump.precision16 as i32, 21i32, 15i32), (32, dump.precision32 as i32, 45, 31)] {
                    // (a) round to nearest at scale 2^p
                    let scale = 2f64.powi(p);
                    let mut worst: Option<(usize, usize, f64, i64)> = None;
                    for j in 0..dump.bounds.len() {
                        let (_, ws) = crate::coef::weights(&dump, j);
                        let ks: Vec<i64> = if bits == 16 { dump.chunks16[j].1.iter().map(|k| *k as i64).collect() } else { dump.chunks32[j].1.iter().map(|k| *k as i64).collect() };
                        for (i, (&w, &k)) in ws.iter().zip(ks.iter()).enumerate() {
                            let fits = (w * scale).abs() < 2f64.powi(word);
                            if fits && (k as f64 - w * scale).abs() > 0.5 + 1e-9 * (w * scale).abs() {
                                worst = Some((j, i, w, k));
                            }
                        }
                    }
                    if let Some((j, i, w, k)) = worst {
                        ctx.violation(format!("C01|model|{}-bit table|coefficient is not the weight rounded to nearest at scale 2^p", bits), || det("rounding", json!({"sample": j, "tap": i, "weight": w, "coefficient": k})));
                    }
                    // (b) p is maximal: one more bit would not fit the coefficient word
                    let next = |w: f64| (w * 2f64.powi(p + 1)).round() >= 2f64.powi(word);
                    if p < cap && !(next(wmax) || next(wabs)) {
                        ctx.violation(format!("C01|model|{}-bit table|precision is lower than the coefficient word allows (coarser quantisation than documented)", bits), || det("precision", json!({"cap": cap})));
                    }
                    if p > cap {
                        ctx.violation(format!("C01|model|{}-bit table|precision above the accumulator head-room cap", bits), || det("precision", json!({"cap": cap})));
                    }
                }
                ctx.class(mix(mix(d[1] as u64, d[2] as u64), mix(dump.precision16 as u64, dump.precision32 as u64)));
                ctx.outcome(mix(dump.precision16 as u64, dump.precision32 as u64));
            }
        }).isolated());
    }

    p.rule = "1-D: every (n_in,n_out) in (1..N)^2 x CROP1(n_in) (13 members incl. fractional, sub-pixel and edge-flush boxes) x 7 filters x {Convolution, Interpolation}, each executed for all 13 pixel types x back-ends x both orientations on content rows {impulse at every position, constants, adv+/-(j) for every output sample, extremes, lcg}; long kernels n_in up to 4097; 2-D: every (w_in,h_in,w_out,h_out) in (1..M)^4 x 5 crop pairs (+ square boxes with left == top inside non-square sources) x 35 algorithms (incl. SuperSampling m=1,2,3) x 3 contents x 13 types x back-ends, both pass orders accepted. Oracle: ideal resampler in f64 interval arithmetic, bound 1/2 + Σ|x|2^-(p+1) per pass (p read from the implementation), 4 f32 ulps for floats".into();
    p.bounds = json!({"N": n, "M": m, "lcg_rows": lcg_rows, "long_n_in": long_in});
    p.assumptions = vec![
        "fixed LCG streams are members of the content alphabet, not samples of a distribution".into(),
        "the quantisation term uses the precision the implementation reports through the hook; the model space judges that precision itself (round to nearest, maximal for the i16 / i32 coefficient word, caps 21 / 45)".into(),
        "an axis whose destination size equals an integer-aligned crop is a copy (C12), not a filter".into(),
    ];
    p
}
