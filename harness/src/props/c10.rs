//! C10 — a uniform image stays uniform: weights form a partition of unity.
use crate::alg::*;
use crate::coef::{self, Geo};
use crate::conv::*;
use crate::explore::*;
use crate::px::*;
use crate::{Prop, Tier};
use fast_image_resize::verif::CoefficientsDump;
use serde_json::json;

pub const BIG: [u32; 9] = [255, 256, 257, 4095, 4096, 4097, 65535, 65536, 65537];

/// Size alphabet of the model-level geometry space: 1..n plus the sparse boundary alphabet.
pub fn model_sizes(n: u32, with_big: bool) -> Vec<u32> {
    let mut v: Vec<u32> = (1..=n).collect();
    if with_big {
        v.extend(BIG.iter().copied().filter(|b| *b > n));
    }
    v
}

/// (n_in, n_out) pairs of the model-level geometry space: the full square up to S, plus every
/// boundary size paired with every small size (the other dimension <= T).
pub fn model_pairs(tier: Tier) -> Vec<(u32, u32)> {
    let (s, t): (u32, u32) = tier.pick((30, 4), (160, 24));
    model_pairs_st(s, t)
}

pub fn model_pairs_st(s: u32, t: u32) -> Vec<(u32, u32)> {
    let mut v = vec![];
    for a in 1..=s {
        for b in 1..=s {
            v.push((a, b));
        }
    }
    for &b in BIG.iter() {
        for a in 1..=t {
            v.push((b, a));
            v.push((a, b));
        }
    }
    v
}

/// Enumerate crops for the model space: full alphabet for small sizes, sub-alphabet above 64.
pub fn model_crops(n_in: u32) -> Vec<Crop1> {
    if n_in <= 64 {
        crop1_alphabet(n_in)
    } else {
        crop1_small(n_in)
    }
}

/// I-unit evaluated exactly: a constant row of value v is reproduced for *every* v in 0..=max.
/// Returns the first (j, v, got) that fails.
pub fn unit_violation_u8(d: &CoefficientsDump) -> Option<(usize, i64, i64)> {
    let p = d.precision16 as u32;
    for (j, (_, ks)) in d.chunks16.iter().enumerate() {
        let s: i64 = ks.iter().map(|k| *k as i64).sum();
        let e = s - (1i64 << p);
        if e == 0 {
            continue;
        }
        // out(v) = (2^(p-1) + v*s) >> p ; exact check at the extreme value decides all v (linear in v)
        for v in [255i64, 128, 1] {
            let got = (((1i64 << (p - 1)) + v * s) >> p).clamp(0, 255);
            if got != v {
                return Some((j, v, got));
            }
        }
    }
    None
}

pub fn unit_violation_u16(d: &CoefficientsDump) -> Option<(usize, i64, i64)> {
    let p = d.precision32 as u32;
    for (j, (_, ks)) in d.chunks32.iter().enumerate() {
        let s: i128 = ks.iter().map(|k| *k as i128).sum();
        if s == 1i128 << p {
            continue;
        }
        for v in [65535i128, 32768, 1] {
            let got = (((1i128 << (p - 1)) + v * s) >> p).clamp(0, 65535);
            if got != v {
                return Some((j, v as i64, got as i64));
            }
        }
    }
    None
}

fn value_rows(ck: CK, n_in: usize, seed: u64) -> Vec<Vec<f64>> {
    let vals: Vec<f64> = match ck {
        CK::U8 => (0..256).map(|v| v as f64).collect(),
        CK::U16 => {
            let mut v = vec![0.0, 1.0, 255.0, 256.0, 32767.0, 32768.0, 65534.0, 65535.0];
            let mut l = Lcg::new(seed ^ 16);
            v.extend((0..4).map(|_| l.comp(ck)));
            v
        }
        CK::I32 => {
            let mut v = vec![i32::MIN as f64, -1.0, 0.0, 1.0, i32::MAX as f64];
            let mut l = Lcg::new(seed ^ 32);
            v.extend((0..3).map(|_| l.comp(ck)));
            v
        }
        CK::F32 => vec![0.0, 1e-38, 0.5, 1.0, 255.0, (3.0e38f32 * 0.25) as f64, -1.0, (1.0f32 / 3.0) as f64],
    };
    vals.into_iter().map(|v| vec![if ck == CK::F32 { v as f32 as f64 } else { v }; n_in]).collect()
}

fn ulp32(x: f64) -> f64 {
    let a = (x.abs() as f32).max(f32::MIN_POSITIVE);
    (f32::from_bits(a.to_bits() + 1) - a) as f64
}

pub fn prop(tier: Tier, seed: u64) -> Prop {
    let mut p = Prop::new("C10");
    let bes = backends();

    // ---- (a) model level: I-unit for every window of every geometry
    let pairs = model_pairs(tier);
    let np = pairs.len() as u64;
    let dims = vec![np, 7, 2];
    let (d1, pr) = (dims.clone(), pairs.clone());
    p.spaces.push(Space::new("model: partition of unity of the fixed-point tables (every geometry, both normalisers)", product(&dims), move |idx, ctx| {
        let mut d = [0usize; 3];
        decode(idx, &d1, &mut d);
        let ((n_in, n_out), f, adaptive) = (pr[d[0]], FILT[d[1]], d[2] == 0);
        ctx.sample(|| json!({"n_in": n_in, "n_out": n_out, "filter": format!("{:?}", f), "adaptive": adaptive, "crops": "CROP1(n_in)"}));
        if ctx.describe_only {
            return;
        }
        for crop in model_crops(n_in) {
            if axis_is_identity(crop, n_out) {
                continue;
            }
            let dump = coef::dump(&Geo { n_in, crop, n_out, f, adaptive }, true, true);
            ctx.ops += dump.bounds.len() as u64;
            ctx.nontrivial += 1;
            // windows with an empty weight sum have no defined value (sample outside every support)
            let empty = (0..dump.bounds.len()).any(|j| coef::weights(&dump, j).1.iter().all(|w| *w == 0.0));
            if empty {
                ctx.note("geometries with a window of zero total weight (no value defined)", 1);
                continue;
            }
            if let Some((j, v, got)) = unit_violation_u8(&dump) {
                ctx.violation(format!("C10|model|8-bit constant not reproduced|{:?}", f), || {
                    json!({"n_in": n_in, "crop": [crop.start, crop.len], "n_out": n_out, "adaptive": adaptive, "sample": j, "value": v, "model_output": got, "precision": dump.precision16, "coefficients": dump.chunks16[j].1})
                });
            }
            if let Some((j, v, got)) = unit_violation_u16(&dump) {
                ctx.violation(format!("C10|model|16-bit constant not reproduced|{:?}", f), || {
                    json!({"n_in": n_in, "crop": [crop.start, crop.len], "n_out": n_out, "adaptive": adaptive, "sample": j, "value": v, "model_output": got, "precision": dump.precision32})
                });
            }
            ctx.class(mix(mix(d[1] as u64, d[2] as u64), mix(dump.precision16 as u64, (dump.window_size % 16) as u64)));
            ctx.outcome(mix(dump.precision16 as u64, dump.chunks16.first().map(|c| c.1.iter().map(|k| *k as u64).sum::<u64>()).unwrap_or(0)));
        }
    }).isolated());

    // ---- (b) direct 1-D: every 8-bit value, boundary values of the wider types
    let n: u32 = tier.pick(10, 32);
    let mut geos: Vec<(u32, u32)> = vec![];
    for a in 1..=n {
        for b in 1..=n {
            geos.push((a, b));
        }
    }
    geos.extend(tier.pick(vec![(4097, 1), (1, 300)], vec![(4097, 1), (65535, 2), (1, 300), (2, 4097), (1000, 3)]));
    let algs: Vec<Alg> = FILT.iter().flat_map(|f| [Alg::Conv(*f), Alg::Interp(*f)]).collect();
    let dims2 = vec![geos.len() as u64, 6, algs.len() as u64];
    let (d2, g2, a2, b2) = (dims2.clone(), geos.clone(), algs.clone(), bes.clone());
    p.spaces.push(Space::new("direct 1-D: geometry x crop x filter x {Conv,Interp} (x 13 types x back-ends x 2 orientations; row r carries value r)", product(&dims2), move |idx, ctx| {
        let mut d = [0usize; 3];
        decode(idx, &d2, &mut d);
        let (n_in, n_out) = g2[d[0]];
        let crops = crop1_small(n_in);
        if d[1] >= crops.len() {
            return;
        }
        let (crop, alg) = (crops[d[1]], a2[d[2]]);
        ctx.sample(|| json!({"n_in": n_in, "n_out": n_out, "crop": [crop.start, crop.len], "alg": format!("{:?}", alg), "values": "all 256 (8-bit); boundary + lcg (16-bit, i32, f32)"}));
        if ctx.describe_only {
            return;
        }
        // a window with zero total weight has no defined value
        let f = alg.filter().unwrap();
        if !axis_is_identity(crop, n_out) {
            let dump = dump_for(n_in, crop, n_out, f, adaptive_of(alg));
            if (0..dump.bounds.len()).any(|j| coef::weights(&dump, j).1.iter().all(|w| *w == 0.0)) {
                ctx.note("geometries with a window of zero total weight (no value defined)", 1);
                return;
            }
        }
        let big = n_in > 300 || n_out > 300;
        for ck in [CK::U8, CK::U16, CK::I32, CK::F32] {
            let rows = value_rows(ck, n_in as usize, seed);
            let h = rows.len();
            for pt in ALL_PT.iter().copied().filter(|p| p.ck() == ck) {
                if big && pt.ncomp() == 2 {
                    continue;
                }
                let nc = pt.ncomp();
                for &be in b2.iter() {
                    if ck == CK::I32 && be != BE::None {
                        continue;
                    }
                    let mut rz = new_resizer(be);
                    for orient in [Orient::Horiz, Orient::Vert] {
                        for alpha in [false, true] {
                            if alpha && !pt.has_alpha() {
                                continue;
                            }
                            // with alpha handling on the alpha channel is at its maximum
                            let mut src = build_1d(pt, &rows, orient);
                            if alpha {
                                let amax = if ck == CK::F32 { 1.0 } else { ck.max() };
                                for y in 0..src.h {
                                    for x in 0..src.w {
                                        src.set(x, y, nc - 1, amax);
                                    }
                                }
                            }
                            let dst = run_1d(&mut rz, &src, orient, crop, n_out, alg, alpha);
                            ctx.ops += 1;
                            let mut bad: Option<(usize, usize, usize, f64, f64)> = None;
                            'o: for line in 0..h {
                                for c in 0..nc {
                                    let want = if alpha && c == nc - 1 { if ck == CK::F32 { 1.0 } else { ck.max() } } else { rows[(line + 7 * c) % h][0] };
                                    for j in 0..n_out as usize {
                                        let got = get_1d(&dst, orient, line, j, c);
                                        let ok = if ck == CK::F32 { (got - want).abs() <= ulp32(want) } else { got == want };
                                        if !ok {
                                            bad = Some((line, j, c, got, want));
                                            break 'o;
                                        }
                                    }
                                }
                            }
                            ctx.traces += (h * nc * n_out as usize) as u64;
                            if let Some((line, j, c, got, want)) = bad {
                                ctx.violation(format!("C10|direct|{:?}|{:?}|{:?}|{:?}|alpha={}|uniform value changed", orient, crate::props::c01::alg_class(alg), pt, be, alpha), || {
                                    json!({"n_in": n_in, "crop": [crop.start, crop.len], "n_out": n_out, "alg": format!("{:?}", alg), "pixel": format!("{:?}", pt), "backend": format!("{:?}", be), "line": line, "sample": j, "channel": c, "value": want, "got": got})
                                });
                            }
                            ctx.class(mix(mix(pt.idx() as u64, be as u64), mix((n_in % 16) as u64 * 2 + alpha as u64, ((n_out % 8) as u64) * 2 + (orient == Orient::Vert) as u64)));
                            ctx.outcome(fnv(dst.bytes()));
                        }
                    }
                }
            }
        }
        ctx.nontrivial += 1;
    }).isolated());

    // ---- (c) direct 2-D incl. SuperSampling
    let shapes: Vec<(u32, u32, u32, u32)> = vec![(8, 8, 4, 4), (9, 7, 2, 3), (16, 5, 3, 2), (5, 16, 2, 3), (20, 20, 3, 3), (3, 3, 7, 5), (7, 13, 2, 2), (33, 9, 7, 5), (2, 2, 2, 3), (40, 40, 1, 1)];
    let mut algs3: Vec<Alg> = vec![];
    for f in FILT {
        algs3.extend([Alg::Conv(f), Alg::Interp(f), Alg::SS(f, 1), Alg::SS(f, 2), Alg::SS(f, 3)]);
    }
    let dims3 = vec![shapes.len() as u64, algs3.len() as u64, 2];
    let (d3, s3, a3, b3) = (dims3.clone(), shapes.clone(), algs3.clone(), bes.clone());
    p.spaces.push(Space::new("direct 2-D: shapes x algorithms incl. SuperSampling x crop (uniform images of boundary values, 13 types x back-ends)", product(&dims3), move |idx, ctx| {
        let mut d = [0usize; 3];
        decode(idx, &d3, &mut d);
        let (sw, sh, dw, dh) = s3[d[0]];
        let alg = a3[d[1]];
        let (cx, cy) = if d[2] == 0 { (Crop1 { start: 0.0, len: sw as f64 }, Crop1 { start: 0.0, len: sh as f64 }) } else { (Crop1 { start: 0.5, len: sw as f64 - 1.0 }, Crop1 { start: 0.25, len: sh as f64 - 0.5 }) };
        if cx.len <= 0.0 || cy.len <= 0.0 {
            return;
        }
        ctx.sample(|| json!({"src": [sw, sh], "dst": [dw, dh], "alg": format!("{:?}", alg), "crop": [cx.start, cy.start, cx.len, cy.len]}));
        if ctx.describe_only {
            return;
        }
        for pt in ALL_PT {
            let ck = pt.ck();
            let vals: Vec<f64> = match ck {
                CK::U8 => vec![0.0, 1.0, 127.0, 128.0, 254.0, 255.0],
                CK::U16 => vec![0.0, 1.0, 32768.0, 65534.0, 65535.0],
                CK::I32 => vec![i32::MIN as f64, -1.0, 0.0, i32::MAX as f64],
                CK::F32 => vec![0.0, 0.5, 1.0, -1.0, 255.0],
            };
            for &v in vals.iter() {
                let src = Raw::from_fn(pt, sw, sh, |_, _, _| v);
                for &be in b3.iter() {
                    if ck == CK::I32 && be != BE::None {
                        continue;
                    }
                    let mut rz = new_resizer(be);
                    let mut o = Opts::new(alg);
                    o.cx = Some(cx);
                    o.cy = Some(cy);
                    let mut dst = Raw::filled(pt, dw, dh, 0x5A);
                    if resize_into(&mut rz, &src, &mut dst, &o).is_err() {
                        continue;
                    }
                    ctx.ops += 1;
                    ctx.traces += (dw * dh) as u64;
                    let n = (dw * dh) as usize * pt.ncomp();
                    if let Some(i) = (0..n).find(|&i| { let g = get_comp(ck, dst.bytes(), i); if ck == CK::F32 { (g - v).abs() > ulp32(v) } else { g != v } }) {
                        ctx.violation(format!("C10|direct 2-D|{}|{:?}|{:?}|uniform value changed", crate::props::c01::alg_class(alg), pt, be), || {
                            json!({"src": [sw, sh], "dst": [dw, dh], "alg": format!("{:?}", alg), "crop": [cx.start, cy.start, cx.len, cy.len], "value": v, "got": get_comp(ck, dst.bytes(), i), "component_index": i})
                        });
                    }
                    ctx.outcome(fnv(dst.bytes()));
                }
            }
            ctx.class(mix(pt.idx() as u64 + 700, mix(d[0] as u64, d[1] as u64)));
        }
        ctx.nontrivial += 1;
    }).isolated());

    p.rule = "(a) model: for every geometry (sizes 1..S plus {255..65537}, CROP1, 7 filters, adaptive on/off) the integer tables of both real normalisers are read through the hook and Σk is checked exactly against 2^p so that every constant value is reproduced (decides all 256 / 65536 values); (b) direct 1-D: every (n_in,n_out) up to N and extreme ratios x crops x 14 algorithms x 13 types x back-ends x 2 orientations on images whose line r carries value r (all 256 values for 8-bit, boundary + lcg values for wider types), alpha off and alpha = max with alpha handling on; (c) 2-D shapes incl. SuperSampling m=1,2,3".into();
    p.bounds = json!({"model_pairs": pairs.len(), "model_square": tier.pick(30, 160), "model_big": BIG, "model_big_other_side_up_to": tier.pick(4, 24), "N": n});
    p.assumptions = vec!["a window whose weights sum to zero (sample centre outside every support, only with Interpolation at large down-scales) has no defined value and is excluded".into(), "floats: one f32 ulp".into()];
    p
}
