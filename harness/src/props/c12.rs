//! C12 — resizing to the same size is an exact copy; a matching dimension is not resampled.
use crate::alg::*;
use crate::explore::*;
use crate::props::c01::alg_class;
use crate::props::c11::tag_image;
use crate::px::*;
use crate::{Prop, Tier};
use serde_json::json;

fn algs() -> Vec<Alg> {
    let mut v = vec![Alg::Nearest];
    for f in FILT {
        v.push(Alg::Conv(f));
        v.push(Alg::Interp(f));
        for m in [1u8, 2, 3] {
            v.push(Alg::SS(f, m));
        }
    }
    v
}

fn ulp32(x: f64) -> f64 {
    let a = (x.abs() as f32).max(f32::MIN_POSITIVE);
    (f32::from_bits(a.to_bits() + 1) - a) as f64
}

/// Non-premultiplied content: colour > alpha, alpha = 0 with non-zero colour, plus tags.
fn content(pt: PT, w: u32, h: u32, kind: usize, seed: u64) -> Raw {
    if kind == 0 {
        return tag_image(pt, w, h);
    }
    let ck = pt.ck();
    let nc = pt.ncomp();
    let mut l = Lcg::new(seed ^ ((w as u64) << 16) ^ h as u64);
    let hi = if ck == CK::F32 { 1.0 } else { ck.max() };
    Raw::from_fn(pt, w, h, |x, y, c| {
        if pt.has_alpha() && c == nc - 1 {
            [0.0, 1.0, (hi / 2.0).floor().max(0.25), hi][((x + y) % 4) as usize]
        } else if ck == CK::F32 {
            l.comp(ck) + 0.5
        } else {
            l.comp(ck)
        }
    })
}

pub fn prop(tier: Tier, seed: u64) -> Prop {
    let mut p = Prop::new("C12");
    let bes = backends();
    let al = algs();
    let wmax: u32 = tier.pick(6, 9);

    // ---- equal size: exact copy of an integer crop
    let dims = vec![wmax as u64, wmax as u64, al.len() as u64, 2];
    let (d1, a1, b1) = (dims.clone(), al.clone(), bes.clone());
    p.spaces.push(Space::new("same size: (W,H) x algorithm x alpha x every integer sub-rectangle (x 13 types x back-ends inside)", product(&dims), move |idx, ctx| {
        let mut d = [0usize; 4];
        decode(idx, &d1, &mut d);
        let (w, h, alg, alpha) = (d[0] as u32 + 1, d[1] as u32 + 1, a1[d[2]], d[3] == 1);
        ctx.sample(|| json!({"image": [w, h], "alg": format!("{:?}", alg), "alpha": alpha, "crops": "every integer sub-rectangle (l,t,cw,ch) for W,H<=5, edge-touching ones above"}));
        if ctx.describe_only {
            return;
        }
        let mut rects: Vec<(u32, u32, u32, u32)> = vec![];
        if w <= 5 && h <= 5 {
            for l in 0..w {
                for t in 0..h {
                    for cw in 1..=w - l {
                        for ch in 1..=h - t {
                            rects.push((l, t, cw, ch));
                        }
                    }
                }
            }
        } else {
            rects.extend([(0, 0, w, h), (1, 0, w - 1, h), (0, 1, w, h - 1), (1, 1, w - 2, h - 2), (w - 1, h - 1, 1, 1), (0, 0, w - 1, h - 1), (2, 1, w - 3, h - 1)]);
        }
        for (pi, pt) in ALL_PT.iter().copied().enumerate() {
            if alpha && !pt.has_alpha() {
                continue;
            }
            let src = content(pt, w, h, (idx as usize + pi) % 2, seed);
            for &(l, t, cw, ch) in rects.iter() {
                if cw == 0 || ch == 0 || cw > w || ch > h {
                    continue;
                }
                let be = b1[(pi + l as usize + t as usize + idx as usize) % b1.len()];
                let mut rz = new_resizer(be);
                let mut o = Opts::new(alg);
                o.alpha = alpha;
                let whole = (l, t, cw, ch) == (0, 0, w, h);
                if !whole || idx % 2 == 0 {
                    o.cx = Some(Crop1 { start: l as f64, len: cw as f64 });
                    o.cy = Some(Crop1 { start: t as f64, len: ch as f64 });
                }
                let mut dst = Raw::filled(pt, cw, ch, 0x5A);
                let r = resize_into(&mut rz, &src, &mut dst, &o);
                ctx.ops += 1;
                if let Err(e) = r {
                    ctx.violation("C12|same size|valid call failed", || json!({"err": format!("{:?}", e)}));
                    continue;
                }
                let mut same = true;
                'o: for y in 0..ch {
                    for x in 0..cw {
                        if dst.pixel_bytes(x, y) != src.pixel_bytes(l + x, t + y) {
                            same = false;
                            break 'o;
                        }
                    }
                }
                ctx.traces += 1;
                if !same {
                    ctx.violation(format!("C12|same size|{}|alpha={}|not an exact copy", alg_class(alg), alpha), || {
                        json!({"image": [w, h], "crop": [l, t, cw, ch], "alg": format!("{:?}", alg), "alpha": alpha, "pixel": format!("{:?}", pt), "backend": format!("{:?}", be),
                               "source": src.bytes().iter().take(48).collect::<Vec<_>>(), "got": dst.bytes().iter().take(48).collect::<Vec<_>>()})
                    });
                }
                ctx.outcome(fnv(dst.bytes()));
            }
            ctx.class(mix(mix(pt.idx() as u64, d[2] as u64), mix(alpha as u64, (w.min(3) * 4 + h.min(3)) as u64)));
        }
        ctx.nontrivial += 1;
    }).isolated());

    // ---- exactly one matching dimension: equals the line-by-line 1-D resize
    let al2: Vec<Alg> = vec![Alg::Nearest, Alg::Conv(F::Lanczos3), Alg::Conv(F::Box), Alg::Conv(F::Mitchell), Alg::Interp(F::Bilinear), Alg::SS(F::CatmullRom, 2), Alg::SS(F::Gaussian, 1)];
    let n2: u32 = tier.pick(5, 7);
    // placement of the region inside its parent: (margin before, margin after) on the matching axis
    // and on the resampled axis; variant 0 is the whole image without a crop box
    const PLACE: [((u32, u32), (u32, u32)); 5] = [((0, 0), (0, 0)), ((1, 1), (0, 0)), ((3, 0), (0, 0)), ((2, 1), (1, 1)), ((5, 2), (0, 2))];
    let dims2 = vec![n2 as u64, n2 as u64, wmax as u64, al2.len() as u64, 2, 2, PLACE.len() as u64];
    let (d2, a2, b2) = (dims2.clone(), al2.clone(), bes.clone());
    p.spaces.push(Space::new("one matching dimension: (W,H) x other destination extent x algorithm x axis x alpha (x 13 types x back-ends inside)", product(&dims2), move |idx, ctx| {
        let mut d = [0usize; 7];
        decode(idx, &d2, &mut d);
        let (w, h, other, alg, axis_x, alpha) = (d[0] as u32 + 1, d[1] as u32 + 1, d[2] as u32 + 1, a2[d[3]], d[4] == 0, d[5] == 1);
        let ((mb, ma), (rb, ra)) = PLACE[d[6]];
        // margins in image coordinates
        let ((lx, rx), (ty, by)) = if axis_x { ((mb, ma), (rb, ra)) } else { ((rb, ra), (mb, ma)) };
        let cropped = d[6] != 0;
        // axis_x: the width matches (no horizontal resampling), the height changes
        let (dw, dh) = if axis_x { (w, other) } else { (other, h) };
        if (dw, dh) == (w, h) {
            return;
        }
        ctx.sample(|| json!({"region": [w, h], "parent": [w + lx + rx, h + ty + by], "crop_origin": [lx, ty], "dst": [dw, dh], "alg": format!("{:?}", alg), "matching_dimension": if axis_x { "width" } else { "height" }, "alpha": alpha}));
        if ctx.describe_only {
            return;
        }
        for (pi, pt) in ALL_PT.iter().copied().enumerate() {
            if alpha && !pt.has_alpha() {
                continue;
            }
            let ck = pt.ck();
            let src = content(pt, w + lx + rx, h + ty + by, 1, seed ^ idx);
            for &be in b2.iter() {
                if ck == CK::I32 && be != BE::None {
                    continue;
                }
                let mut rz = new_resizer(be);
                let mut o = Opts::new(alg);
                o.alpha = alpha;
                if cropped {
                    o.cx = Some(Crop1 { start: lx as f64, len: w as f64 });
                    o.cy = Some(Crop1 { start: ty as f64, len: h as f64 });
                }
                let Ok(full) = resize_raw(&mut rz, &src, dw, dh, &o) else { continue };
                ctx.ops += 1;
                // the line alone keeps the crop along the resampled axis and is one pixel thick
                let mut ol = o;
                if cropped {
                    if axis_x {
                        ol.cx = Some(Crop1 { start: 0.0, len: 1.0 });
                    } else {
                        ol.cy = Some(Crop1 { start: 0.0, len: 1.0 });
                    }
                }
                // line by line: each column (row) alone as an image of width (height) 1
                let lines = if axis_x { w } else { h };
                let mut bad: Option<(u32, u32, usize, f64, f64)> = None;
                'l: for k in 0..lines {
                    let line = if axis_x { Raw::from_fn(pt, 1, h + ty + by, |_, y, c| src.get(lx + k, y, c)) } else { Raw::from_fn(pt, w + lx + rx, 1, |x, _, c| src.get(x, ty + k, c)) };
                    let (lw, lh) = if axis_x { (1, dh) } else { (dw, 1) };
                    let Ok(lo) = resize_raw(&mut rz, &line, lw, lh, &ol) else { continue };
                    ctx.ops += 1;
                    for j in 0..(if axis_x { dh } else { dw }) {
                        for c in 0..pt.ncomp() {
                            let (a, b) = if axis_x { (full.get(k, j, c), lo.get(0, j, c)) } else { (full.get(j, k, c), lo.get(j, 0, c)) };
                            let ok = if ck.is_int() { a == b } else { (a - b).abs() <= 2.0 * ulp32(a.abs().max(b.abs())) || (a.is_nan() && b.is_nan()) };
                            if !ok {
                                bad = Some((k, j, c, a, b));
                                break 'l;
                            }
                        }
                    }
                }
                ctx.traces += lines as u64;
                if let Some((k, j, c, a, b)) = bad {
                    ctx.violation(format!("C12|one matching dimension|{}|alpha={}|{:?}|mixing along the matching dimension", alg_class(alg), alpha, pt), || {
                        json!({"region": [w, h], "parent": [w + lx + rx, h + ty + by], "crop_origin": [lx, ty], "dst": [dw, dh], "alg": format!("{:?}", alg), "alpha": alpha, "pixel": format!("{:?}", pt), "backend": format!("{:?}", be), "line": k, "sample": j, "channel": c, "full_resize": a, "line_alone": b})
                    });
                }
                ctx.outcome(fnv(full.bytes()));
                ctx.class(mix(mix(pt.idx() as u64 + 300, be as u64), mix(d[3] as u64 * 8 + d[6] as u64, (axis_x as u64) * 2 + alpha as u64)));
            }
        }
        ctx.nontrivial += 1;
    }).isolated());

    p.rule = "same size: every image size up to WxW x 36 algorithms (Nearest, 7 filters x {Convolution, Interpolation, SuperSampling m=1,2,3}) x alpha on/off x every integer sub-rectangle (all of them for W,H<=5) x 13 pixel types with rotating back-ends, tag and non-premultiplied contents: the destination must be a byte copy of the region; one matching dimension: region sizes up to N^2 x the other extent 1..W x 7 algorithms x both axes x alpha x 5 placements of the region in its parent (no crop box; integer crop boxes with margins 1/1, 3/0, 2/1 and 5/2 along the matching axis, two of them with margins along the resampled axis too): the result must equal the resize of each line taken alone (ints exact, floats 2 ulps)".into();
    p.bounds = json!({"W": wmax, "N": n2});
    p.assumptions = vec![];
    p
}
