//! C08 — with the rayon feature the result is independent of thread count and schedule.
//! The engines live in two separate cargo workspaces (cargo unifies features inside one build):
//! /verif/loomh (rayon replaced by the loom model) and /verif/rayonh (the real rayon). This
//! module drives their binaries and folds their reports into the common evidence format.
use crate::explore::*;
use crate::{Prop, Tier};
use serde_json::{json, Value};
use std::process::Command;

fn run_engine(path: &str, args: &[&str], envs: &[(&str, &str)], label: &str) -> Report {
    run_engine_for("C08", path, args, envs, label)
}

pub fn run_engine_for(id: &str, path: &str, args: &[&str], envs: &[(&str, &str)], label: &str) -> Report {
    let t0 = std::time::Instant::now();
    let mut cmd = Command::new(path);
    cmd.args(args);
    for (k, v) in envs {
        cmd.env(k, v);
    }
    let mut rep = Report::default();
    // an engine that never finishes is a verdict too (a band body or a search transition that does
    // not return); the limit is far above the slowest legitimate engine run (~35 min, thorough, loaded)
    let limit = std::time::Duration::from_secs(std::env::var("VERIF_ENGINE_TIMEOUT").ok().and_then(|v| v.parse().ok()).unwrap_or(7200));
    let spawned = cmd.stderr(std::process::Stdio::inherit()).stdout(std::process::Stdio::piped()).stdin(std::process::Stdio::null()).spawn();
    let result: std::io::Result<std::process::Output> = match spawned {
        Err(e) => Err(e),
        Ok(mut child) => {
            let mut pipe = child.stdout.take().expect("engine stdout");
            let reader = std::thread::spawn(move || {
                use std::io::Read;
                let mut buf = Vec::new();
                let _ = pipe.read_to_end(&mut buf);
                buf
            });
            let mut timed_out = false;
            let status = loop {
                match child.try_wait() {
                    Ok(Some(st)) => break st,
                    _ => {}
                }
                if t0.elapsed() > limit {
                    timed_out = true;
                    let _ = child.kill();
                    break child.wait().expect("wait engine");
                }
                std::thread::sleep(std::time::Duration::from_millis(50));
            };
            let stdout = reader.join().unwrap_or_default();
            if timed_out {
                let s = format!("{}|hang|engine '{}' did not finish within {} s (killed)", id, label, limit.as_secs());
                rep.sig_counts.insert(s.clone(), 1);
                rep.viols.push(Viol { space: format!("engine:{}", label), idx: 0, sig: s, detail: json!({"limit_s": limit.as_secs()}) });
                eprintln!("[{}] engine {:<28} killed after {} s", id, label, limit.as_secs());
                return rep;
            }
            Ok(std::process::Output { status, stdout, stderr: vec![] })
        }
    };
    match result {
        Ok(out) if out.status.success() => {
            let text = String::from_utf8_lossy(&out.stdout);
            match text.lines().rev().find(|l| l.starts_with('{')).map(serde_json::from_str::<Value>) {
                Some(Ok(v)) => {
                    rep = report_from_json(&v);
                    rep.planned = v["planned"].as_u64().unwrap_or(rep.cases);
                    if let Some(a) = v["spaces"].as_array() {
                        rep.spaces = a.clone();
                    }
                }
                _ => {
                    eprintln!("MACHINERY-ERROR {}: no report line", label);
                    rep.notes.insert("machinery_errors".into(), 1);
                }
            }
        }
        Ok(out) => {
            use std::os::unix::process::ExitStatusExt;
            if let Some(sig) = out.status.signal() {
                // an engine that runs the library's band code in-process died on a signal: a crash
                // verdict (memory corruption / abort inside the library), not a machinery failure
                let s = format!("{}|crash|engine '{}' died on signal {} while running library code", id, label, sig);
                rep.sig_counts.insert(s.clone(), 1);
                rep.viols.push(Viol { space: format!("engine:{}", label), idx: 0, sig: s, detail: json!({"status": format!("{:?}", out.status)}) });
            } else {
                eprintln!("MACHINERY-ERROR {} exited with {:?}", label, out.status);
                rep.notes.insert("machinery_errors".into(), 1);
            }
        }
        Err(e) => {
            eprintln!("MACHINERY-ERROR cannot run {}: {} (was `run.sh --setup` / `run.sh {}` used?)", path, e, id);
            rep.notes.insert("machinery_errors".into(), 1);
        }
    }
    for v in rep.viols.iter_mut() {
        v.space = format!("engine:{}", label);
    }
    eprintln!("[{}] engine {:<28} cases {:>8} transitions {:>9} violations {} {:.1}s", id, label, rep.cases, rep.ops, rep.sig_counts.len(), t0.elapsed().as_secs_f64());
    rep
}

pub const LOOM_REL: &str = "/verif/.target/loomh/release/c08loom";
pub const LOOM_DBG: &str = "/verif/.target/loomh/dbg/c08loom";
pub const RAYON_REL: &str = "/verif/.target/rayonh/release/c08rayon";
pub const RAYON_TSAN: &str = "/verif/.target/rayonh-tsan/x86_64-unknown-linux-gnu/release/c08rayon";

/// Auxiliary pass: the real-rayon bodies built with ThreadSanitizer, free-running. A cooperative
/// scheduler's hand-offs are happens-before edges that would blind a race detector, so this runs
/// on real OS threads. A reported race is a real unsynchronised access; it is attached to the
/// evidence as a violation labelled `tsan` (it is not the deciding exploration).
fn run_tsan(tier: &str) -> Report {
    let mut rep = Report::default();
    if !std::path::Path::new(RAYON_TSAN).exists() {
        eprintln!("[C08] ThreadSanitizer build not available: auxiliary pass skipped");
        rep.notes.insert("tsan auxiliary pass skipped (binary not built)".into(), 1);
        return rep;
    }
    let t0 = std::time::Instant::now();
    // Reports whose stacks lie entirely inside rayon-core / crossbeam-epoch are ignored: those
    // crates synchronise with standalone memory fences, which ThreadSanitizer does not model, and
    // it reports their (correct) epoch reclamation as races now and then. Only a report that has a
    // frame of the library under test (or of the harness bodies) counts.
    // (no suppression file: a `race:` suppression matches ANY frame of a stack, and every band body
    //  runs below rayon_core frames, so it would silence everything — verified with a deliberate
    //  static-scratch race)
    let out = Command::new(RAYON_TSAN).arg(tier).env("C08_TSAN", "1").env("TSAN_OPTIONS", "halt_on_error=0 exitcode=0 report_signal_unsafe=0").output();
    match out {
        Ok(o) => {
            let err = String::from_utf8_lossy(&o.stderr).to_string();
            let reports: Vec<&str> = err.split("WARNING: ThreadSanitizer").skip(1).collect();
            // a report counts if one of the three innermost frames of an access is library code
            let relevant: Vec<&&str> = reports
                .iter()
                .filter(|r| {
                    r.lines().any(|l| {
                        let t = l.trim_start();
                        (t.starts_with("#0 ") || t.starts_with("#1 ") || t.starts_with("#2 ")) && t.contains("fast_image_resize::")
                    })
                })
                .collect();
            if reports.len() > relevant.len() {
                rep.notes.insert("tsan reports inside rayon/crossbeam internals ignored (fences not modelled by TSan)".into(), (reports.len() - relevant.len()) as u64);
            }
            if let Some(r) = relevant.first() {
                let excerpt: Vec<&str> = r.lines().filter(|l| l.contains("fast_image_resize") || l.contains("#0") || l.contains("#1") || l.contains("#2") || l.contains("Previous") || l.contains("data race")).take(24).collect();
                let site = r.lines().find(|l| l.contains("fast_image_resize::")).map(|l| l.trim().split(" in ").nth(1).unwrap_or(l).split(' ').next().unwrap_or("").to_string()).unwrap_or_default();
                let sig = format!("C08|tsan|data race reported by ThreadSanitizer|{}", site);
                rep.sig_counts.insert(sig.clone(), relevant.len() as u64);
                rep.viols.push(Viol { space: "engine:tsan".into(), idx: 0, sig, detail: json!({"auxiliary": true, "reports": relevant.len(), "report": excerpt}) });
            } else if let Some(Ok(v)) = String::from_utf8_lossy(&o.stdout).lines().rev().find(|l| l.starts_with('{')).map(serde_json::from_str::<Value>) {
                let r = report_from_json(&v);
                rep.notes.insert("tsan auxiliary pass: runs without a race report".into(), r.ops);
                if let Some(a) = v["spaces"].as_array() {
                    rep.spaces = a.clone();
                }
                // violations of the comparison itself (not races) are real-rayon findings too
                rep.viols = r.viols;
                rep.sig_counts = r.sig_counts;
            } else {
                // auxiliary only: a pass that produced neither a report nor a result is recorded, not fatal
                eprintln!("[C08] tsan auxiliary pass gave no result (exit {:?}); ignored", o.status);
                rep.notes.insert("tsan auxiliary pass gave no result".into(), 1);
            }
        }
        Err(e) => {
            eprintln!("[C08] cannot run the ThreadSanitizer binary: {}", e);
            rep.notes.insert("tsan auxiliary pass skipped (binary not runnable)".into(), 1);
        }
    }
    eprintln!("[C08] engine {:<28} {:.1}s", "tsan (auxiliary)", t0.elapsed().as_secs_f64());
    rep
}

pub fn prop(tier: Tier, _seed: u64) -> Prop {
    let mut p = Prop::new("C08");
    let t = tier.name();
    p.extra.push(Box::new(move |_| run_engine(LOOM_REL, &[t], &[], "loom+serial (release)")));
    p.extra.push(Box::new(move |_| run_engine(LOOM_DBG, &[t], &[], "serial (debug assertions)")));
    p.extra.push(Box::new(move |_| run_engine(RAYON_REL, &[t], &[], "real rayon")));
    p.extra.push(Box::new(move |_| run_tsan(t)));
    p.replay_fn = Some(Box::new(|detail: &Value| {
        let mut out = vec![];
        let bin = if detail["profile"] == "dbg" { LOOM_DBG } else { LOOM_REL };
        if detail.get("spec").is_some() {
            // a loom body
            let o = Command::new(LOOM_REL).arg("--one").arg(detail["spec"].to_string()).output().expect("run loom child");
            let text = String::from_utf8_lossy(&o.stdout).to_string();
            println!("{}{}", text, String::from_utf8_lossy(&o.stderr));
            if !o.status.success() {
                out.push(("C08|loom|model panicked (see output above)".to_string(), json!({"status": format!("{:?}", o.status)})));
            } else if let Some(Ok(v)) = text.lines().rev().find(|l| l.starts_with('{')).map(serde_json::from_str::<Value>) {
                if v["mismatches"].as_array().map_or(false, |m| !m.is_empty()) {
                    out.push(("C08|loom|mismatch".to_string(), v));
                }
            }
        } else if detail.get("case").is_some() {
            let o = Command::new(bin).arg("--case").arg(detail.to_string()).output().expect("run serial case");
            let text = String::from_utf8_lossy(&o.stdout).to_string();
            if let Some(Ok(v)) = text.lines().rev().find(|l| l.starts_with('{')).map(serde_json::from_str::<Value>) {
                for x in v["violations"].as_array().cloned().unwrap_or_default() {
                    out.push((x["sig"].as_str().unwrap_or("").to_string(), x["detail"].clone()));
                }
            } else {
                out.push(("C08|serial case crashed".to_string(), json!({"status": format!("{:?}", o.status)})));
            }
        } else {
            println!("this record (band-count function / real rayon) is replayed by re-running `run.sh C08 quick`: {}", detail);
        }
        out
    }));
    p.rule = "part 1: the library's real band code under a loom-thread model of the four rayon entry points it uses: bodies {horizontal pass, vertical pass, two-pass resize, multiply_alpha, divide_alpha_inplace, alpha-aware resize (4 regions), Nearest (control)} x {U8, U8x4, U16x2, F32} x {portable, SIMD} x reported pool sizes {2,3,4,7,32} x workers 2..5 (loom allows 5 threads per execution) with preemption bound 2/3, destination either a harness view whose rows are loom UnsafeCells (unsynchronised row accesses are reported in every execution) or a plain TypedImage (slice-split path); every execution must give the bytes of the sequential run and run every band exactly once; row-granularity yield points on small images. part 2 (also for U8x2 and U8x3, and with the long-kernel body HorizLong = Lanczos3 4x width-only down-scale, as is part 4): every pool size 1..33, 64, 1000 x shapes (incl. 1xN, Nx1 with N = 4095..65537) x bodies x types in every band order (all permutations up to 5 bands) with per-band write sets (pairwise disjoint) under two sentinels, on both build profiles. part 3: the two band-count functions on (0..300 ∪ 2^k-1,2^k,2^k+1 for k <= 32)^2 and the resulting splits. part 4: the same bodies under the real rayon, pool sizes 1..32 and above, repeated runs".into();
    p.bounds = json!({"loom_preemption_bound": tier.pick(2, 3), "loom_threads_per_execution": 5});
    p.assumptions = vec![
        "real rayon is trusted to run every item of a for_each exactly once on some thread in some order; the loom model allows any such execution".into(),
        "loom explores interleavings at its scheduling points (band claims, joins, optional per-row yields); plain accesses to the destination are checked through loom::cell::UnsafeCell per row; column-split regions share rows by design and get their disjointness from the write-set analysis".into(),
        "the OS schedule under the real rayon is uncontrolled: part 4 binds the model to the real pool, it is not the schedule argument".into(),
    ];
    p.min_outcomes = 2;
    p
}
