//! C03 — no input reachable through the safe API causes UB, a crash or a panic.
use crate::alg::*;
use crate::coef::{self, Geo};
use crate::containers::*;
use crate::explore::*;
use crate::guard::fenced;
use crate::props::c05::{content, mapper, run_one, spare_for, PLACES};
use crate::props::c06::mul_div;
use crate::props::c09;
use crate::props::c10::{model_crops, model_pairs_st};
use crate::px::*;
use crate::typed::*;
use crate::{Prop, Tier};
use fast_image_resize as fir;
use fir::images::{TypedCroppedImage, TypedCroppedImageMut, TypedImage, TypedImageRef};
use fir::pixels::U16;
use fir::{ImageView, ImageViewMut};
use serde_json::json;
use std::num::NonZeroU32;

fn custom_filters() -> Vec<F> {
    (0..N_CUSTOM).map(F::Custom).collect()
}

fn is_wild(f: F) -> bool {
    matches!(f, F::Custom(id) if WILD_CUSTOM.contains(&id))
}

/// constify_imm8's dispatch table: 0..=31 without 11.
fn dispatchable(p: u8) -> bool {
    p <= 31 && p != 11
}

pub fn prop(tier: Tier, seed: u64) -> Prop {
    let mut p = Prop::new("C03");
    p.both_profiles = true;
    let bes = backends();

    // ------------------------------------------------------------------------------------------
    // (1) coefficient-model invariants
    // ------------------------------------------------------------------------------------------
    let (ms, mt): (u32, u32) = tier.pick((16, 2), (160, 24));
    let pairs = model_pairs_st(ms, mt);
    let mut filters: Vec<F> = FILT.to_vec();
    filters.extend(custom_filters());
    let dims = vec![pairs.len() as u64, filters.len() as u64, 2];
    let (d1, pr, fl) = (dims.clone(), pairs.clone(), filters.clone());
    p.spaces.push(Space::new("model: window bounds, clip-table index range, accumulator range, precision dispatch (every geometry x built-in and custom kernels)", product(&dims), move |idx, ctx| {
        let mut d = [0usize; 3];
        decode(idx, &d1, &mut d);
        let ((n_in, n_out), f, adaptive) = (pr[d[0]], fl[d[1]], d[2] == 0);
        if matches!(f, F::Custom(_)) && (n_in > 300 || n_out > 300) && d[0] % 3 != 0 {
            return; // thin out huge x custom
        }
        ctx.sample(|| json!({"n_in": n_in, "n_out": n_out, "filter": format!("{:?}", f), "adaptive": adaptive, "crops": "CROP1(n_in)"}));
        if ctx.describe_only {
            return;
        }
        for crop in model_crops(n_in) {
            let g = Geo { n_in, crop, n_out, f, adaptive };
            let r = guarded(|| coef::dump(&g, true, true));
            ctx.ops += 1;
            ctx.nontrivial += 1;
            let det = |extra: serde_json::Value| json!({"n_in": n_in, "crop": [crop.start, crop.len], "n_out": n_out, "filter": format!("{:?}", f), "adaptive": adaptive, "more": extra});
            let dump = match r {
                Ok(d) => d,
                Err((loc, msg)) => {
                    // a panic while building the tables: only allowed outside the head-room (wild kernels)
                    if !is_wild(f) {
                        ctx.violation(format!("C03|model|panic while building coefficient tables|{}|{}", loc, panic_class(&msg)), || det(json!({"message": msg})));
                    } else {
                        ctx.note("wild-kernel geometries where building the tables panics (allowed: safe panic outside the head-room)", 1);
                    }
                    continue;
                }
            };
            // I-win: memory safety of every unchecked window access
            let mut win_bad = None;
            if dump.bounds.len() != n_out as usize || dump.values.len() != dump.window_size * n_out as usize || dump.chunks16.len() != n_out as usize || dump.chunks32.len() != n_out as usize {
                win_bad = Some(format!("table sizes: bounds {} values {} window {} chunks16 {} chunks32 {}", dump.bounds.len(), dump.values.len(), dump.window_size, dump.chunks16.len(), dump.chunks32.len()));
            }
            for (j, &(start, size)) in dump.bounds.iter().enumerate() {
                if start as u64 + size as u64 > n_in as u64 || size as usize > dump.window_size {
                    win_bad = Some(format!("window {}: start {} size {} in_size {} window_size {}", j, start, size, n_in, dump.window_size));
                    break;
                }
                if dump.chunks16.get(j).map_or(true, |c| c.0 != start || c.1.len() != size as usize) || dump.chunks32.get(j).map_or(true, |c| c.0 != start || c.1.len() != size as usize) {
                    win_bad = Some(format!("window {}: integer chunk does not match bound ({}, {})", j, start, size));
                    break;
                }
            }
            if let Some(w) = win_bad {
                ctx.violation("C03|model|window outside the source line (unchecked reads would leave the row)", || det(json!({"what": w})));
                continue;
            }
            let headroom = (0..dump.bounds.len()).all(|j| coef::sum_abs(&dump, j) < 3.999);
            // I-idx: index into the 1280-entry clip table for ALL 8-bit contents
            let p16 = dump.precision16 as u32;
            let mut idx_bad = None;
            let mut acc_bad = None;
            let mut assert_bad = None;
            if p16 >= 1 && p16 <= 31 {
                for (j, (_, ks)) in dump.chunks16.iter().enumerate() {
                    let pos: i64 = ks.iter().filter(|k| **k > 0).map(|k| *k as i64).sum();
                    let neg: i64 = ks.iter().filter(|k| **k < 0).map(|k| *k as i64).sum();
                    let init = 1i64 << (p16 - 1);
                    let (hi_acc, lo_acc) = (init + 255 * pos, init + 255 * neg);
                    if hi_acc > i32::MAX as i64 || lo_acc < i32::MIN as i64 {
                        acc_bad.get_or_insert((j, hi_acc, lo_acc));
                    }
                    let (hi, lo) = (hi_acc >> p16, lo_acc >> p16);
                    if 640 + hi > 1279 || 640 + lo < 0 {
                        idx_bad.get_or_insert((j, lo, hi));
                    }
                    if hi > 511 || lo < -512 {
                        assert_bad.get_or_insert((j, lo, hi));
                    }
                }
            } else {
                ctx.note("geometries with 8-bit precision outside 1..=31", 1);
            }
            if let Some((j, lo, hi)) = idx_bad {
                // The unclamped index would leave the 1280-entry table for some contents (only
                // kernels outside the head-room get here). No fence can see a static-table
                // over-read, so bind it to the code by replay: the real portable kernel and the
                // SIMD tails must return the *saturated* prediction on the adversarial rows.
                ctx.note("model states whose unclamped clip index leaves the table (decided by replay)", 1);
                if n_in <= 64 && n_out <= 64 && acc_bad.is_none() {
                    let (start, ks) = (&dump.chunks16[j].0, &dump.chunks16[j].1);
                    let mut rows: Vec<Vec<f64>> = vec![vec![0.0; n_in as usize], vec![0.0; n_in as usize]];
                    for (i, k) in ks.iter().enumerate() {
                        if *k > 0 {
                            rows[0][*start as usize + i] = 255.0;
                        } else if *k < 0 {
                            rows[1][*start as usize + i] = 255.0;
                        }
                    }
                    let alg = if adaptive { Alg::Conv(f) } else { Alg::Interp(f) };
                    for pt in [PT::U8, PT::U8x3, PT::U8x4] {
                        for be in backends() {
                            for orient in [crate::conv::Orient::Horiz, crate::conv::Orient::Vert] {
                                let src = crate::conv::build_1d(pt, &rows, orient);
                                let got = guarded(|| {
                                    let mut rz = new_resizer(be);
                                    crate::conv::run_1d(&mut rz, &src, orient, crop, n_out, alg, false)
                                });
                                ctx.ops += 1;
                                let Ok(dst) = got else { continue }; // a safe panic is allowed out here
                                ctx.traces += 2;
                                for line in 0..2usize {
                                    let want = coef::predict_u8(&dump, j, |i| rows[line][i] as i64) as f64;
                                    let g = crate::conv::get_1d(&dst, orient, line, j, 0);
                                    // SIMD kernels saturate by packus, which agrees with the clamp
                                    if g != want {
                                        ctx.violation(format!("C03|model|8-bit kernel returns a value that is not the saturated fixed-point result (clip-table index outside the table)|{:?}", be), || {
                                            det(json!({"sample": j, "min_shifted_acc": lo, "max_shifted_acc": hi, "precision": p16, "pixel": format!("{:?}", pt), "orientation": format!("{:?}", orient), "row": rows[line], "got": g, "saturated_model": want, "coefficients": ks}))
                                        });
                                    }
                                }
                            }
                        }
                    }
                }
            }
            if headroom {
                if let Some((j, hi, lo)) = acc_bad {
                    ctx.violation("C03|model|i32 accumulator can overflow within the head-room", || det(json!({"sample": j, "max_acc": hi, "min_acc": lo})));
                }
                if assert_bad.is_some() {
                    ctx.note("head-room geometries whose shifted accumulator can leave [-512,511] (inside the table [-640,639])", 1);
                }
                // I-disp
                if !dispatchable(dump.precision16) || dump.precision16 < 1 {
                    ctx.violation("C03|model|8-bit precision not in the SIMD dispatch table within the head-room", || det(json!({"precision": dump.precision16})));
                }
                if dump.precision32 < 1 || dump.precision32 > 62 {
                    ctx.violation("C03|model|16-bit precision out of range within the head-room", || det(json!({"precision": dump.precision32})));
                }
                // i64 accumulator for 16-bit
                let p32 = dump.precision32 as u32;
                for (j, (_, ks)) in dump.chunks32.iter().enumerate() {
                    let s: i128 = ks.iter().map(|k| (*k as i128).abs()).sum();
                    if (1i128 << (p32.max(1) - 1)) + 65535 * s > i64::MAX as i128 {
                        ctx.violation("C03|model|i64 accumulator can overflow within the head-room", || det(json!({"sample": j})));
                        break;
                    }
                }
            }
            ctx.class(mix(mix(d[1] as u64, d[2] as u64), mix(dump.precision16 as u64, mix((dump.window_size % 16) as u64, headroom as u64))));
            ctx.outcome(mix(dump.precision16 as u64 * 64 + dump.precision32 as u64, dump.window_size as u64));
        }
    }));

    // ------------------------------------------------------------------------------------------
    // (2) API sweep with fenced memory, isolated children
    // ------------------------------------------------------------------------------------------
    let smax: u64 = tier.pick(3, 6) + 1;
    let mut algs: Vec<Alg> = vec![Alg::Nearest];
    for f in [F::Box, F::Lanczos3, F::Gaussian, F::Custom(2), F::Custom(3), F::Custom(5), F::Custom(6), F::Custom(8), F::Custom(9), F::Custom(10), F::Custom(12), F::Custom(13)] {
        algs.push(Alg::Conv(f));
        algs.push(Alg::Interp(f));
    }
    for (f, m) in [(F::Box, 0u8), (F::Bilinear, 1), (F::Lanczos3, 2), (F::Custom(6), 2), (F::CatmullRom, 255)] {
        algs.push(Alg::SS(f, m));
    }
    // crop variants per axis (index into a per-size list)
    fn crop_variants(n: u32) -> Vec<Option<Crop1>> {
        let nf = n as f64;
        let mut v: Vec<Option<Crop1>> = vec![None];
        for c in crop1_alphabet(n.max(1)) {
            if n > 0 {
                v.push(Some(c));
            }
        }
        for bad in [f64::NEG_INFINITY, -1.0, -5e-324, f64::NAN, nf + (2.0f64).powi(-40), nf + 1.0, 1e300, f64::INFINITY] {
            v.push(Some(Crop1 { start: bad, len: 1.0 }));
            v.push(Some(Crop1 { start: 0.0, len: bad }));
        }
        v.push(Some(Crop1 { start: 0.0, len: 0.0 }));
        v.push(Some(Crop1 { start: nf, len: 0.0 }));
        v
    }
    let ncv = crop_variants(7).len() as u64 + 2;
    let dims2 = vec![smax, smax, smax, smax, algs.len() as u64, ncv];
    let (d2, a2, b2) = (dims2.clone(), algs.clone(), bes.clone());
    p.spaces.push(
        Space::new("API sweep: (sw,sh,dw,dh) incl. 0 x algorithms (built-in, custom, wild kernels, multiplicity 0..255) x valid+invalid crops (pixel types x back-ends x containers inside; fenced heap and buffers)", product(&dims2), move |idx, ctx| {
            let mut d = [0usize; 6];
            decode(idx, &d2, &mut d);
            let (sw, sh, dw, dh) = (d[0] as u32, d[1] as u32, d[2] as u32, d[3] as u32);
            let alg = a2[d[4]];
            let cvx = crop_variants(sw);
            let cvy = crop_variants(sh);
            if d[5] >= cvx.len().max(cvy.len()) {
                return;
            }
            // the crop axis alphabets are paired diagonally with a shift (pairwise coverage)
            let cx = cvx[d[5] % cvx.len()];
            let cy = cvy[(d[5] * 7 + 3) % cvy.len()];
            ctx.sample(|| json!({"src": [sw, sh], "dst": [dw, dh], "alg": format!("{:?}", alg), "crop_x": format!("{:?}", cx), "crop_y": format!("{:?}", cy)}));
            if ctx.describe_only {
                return;
            }
            // outside the documented head-room (some normalised window has sum|w| >= 4) a *safe* panic
            // is allowed; decided per geometry with the implementation's own tables
            let wild = match alg.filter() {
                Some(f @ F::Custom(_)) => {
                    is_wild(f) || {
                        let full_x = Crop1 { start: 0.0, len: sw as f64 };
                        let full_y = Crop1 { start: 0.0, len: sh as f64 };
                        let (ccx, ccy) = (cx.unwrap_or(full_x), cy.unwrap_or(full_y));
                        let finite = [ccx.start, ccx.len, ccy.start, ccy.len].iter().all(|v| v.is_finite());
                        !finite || sw == 0 || sh == 0 || dw == 0 || dh == 0 || {
                            let r = guarded(|| {
                                let (iw, ih, gx, gy, _) = crate::props::c01::conv_step_geometry(sw, sh, dw, dh, ccx, ccy, alg);
                                let ad = crate::conv::adaptive_of(alg);
                                crate::props::c01::within_headroom(iw, gx, dw, f, ad) && crate::props::c01::within_headroom(ih, gy, dh, f, ad)
                            });
                            !matches!(r, Ok(true))
                        }
                    }
                }
                _ => false,
            };
            let k = idx as usize;
            // pixel types: three per case, rotating, so that every type meets every (alg, crop) class
            let pts = [ALL_PT[k % 13], ALL_PT[(k / 13 + 4) % 13], TYPED_PTS[k % 6]];
            for (pi, &pt) in pts.iter().enumerate() {
                let src = content(pt, sw, sh, seed ^ idx ^ pi as u64);
                let mut o = Opts::new(alg);
                o.cx = cx;
                o.cy = cy;
                o.alpha = (k + pi) % 2 == 0;
                let fo = o.to_fir(sw, sh);
                let be = b2[(k + pi) % b2.len()];
                let typed = pi == 2;
                let combos: Vec<(SrcK, DstK)> = if typed {
                    vec![(SrcK::TRef, DstK::TSlice), (SrcK::TCropNew, DstK::TSliceSpare), (SrcK::TRef, DstK::TCropMutFromRef)]
                } else {
                    vec![(SrcK::RefNew, DstK::ImgSlice), (SrcK::CropOfRef, DstK::ImgSliceSpare), (SrcK::RefNew, DstK::CropMutOfImg)]
                };
                for (ci, (sk, dk)) in combos.into_iter().enumerate() {
                    if (sk.is_crop() && (sw == 0 || sh == 0)) || (dk.is_crop() && (dw == 0 || dh == 0)) {
                        continue;
                    }
                    let mem = if (k + ci) % 4 == 3 { Mem::FencedStart } else { Mem::FencedEnd };
                    let r = guarded(|| {
                        let mut rz = new_resizer(be);
                        let mut op = OpSpec::Resize(&mut rz, fo);
                        fenced(|| run_one(&mut op, typed, sk, dk, &src, pt, dw, dh, PLACES[(k + 1) % PLACES.len()], PLACES[(k + 2) % PLACES.len()], spare_for(k, dw.max(1)), mem, 0x5A))
                    });
                    ctx.ops += 1;
                    match r {
                        Ok((out, _)) => {
                            ctx.outcome(mix(out.result.is_ok() as u64, fnv(out.rect.bytes())));
                        }
                        Err((loc, msg)) => {
                            if wild {
                                ctx.note("wild-kernel calls that panicked (allowed: memory safety only)", 1);
                            } else if loc.contains("harness") || !loc.starts_with("src/") {
                                ctx.violation(format!("C03|harness panic|{}|{}", loc, panic_class(&msg)), || json!({"message": msg}));
                            } else {
                                ctx.violation(format!("C03|api|panic|{}|{}", loc, panic_class(&msg)), || {
                                    json!({"src": [sw, sh], "dst": [dw, dh], "alg": format!("{:?}", alg), "crop_x": format!("{:?}", cx), "crop_y": format!("{:?}", cy), "pixel": format!("{:?}", pt), "backend": format!("{:?}", be),
                                           "src_kind": format!("{:?}", sk), "dst_kind": format!("{:?}", dk), "message": msg, "panic_at": loc})
                                });
                            }
                        }
                    }
                    ctx.class(mix(mix(pt.idx() as u64, be as u64), mix(d[4] as u64, mix(d[5] as u64, (sk as u64) * 16 + dk as u64))));
                }
            }
            ctx.nontrivial += 1;
        })
        .isolated(),
    );

    // ------------------------------------------------------------------------------------------
    // (2') custom filter construction: every support value a safe caller can pass to Filter::new.
    //      Documented contract: InvalidSupport unless the support is finite and > 0. An accepted
    //      filter is then used (memory stays bounded: supports <= 64 on sizes <= 16).
    // ------------------------------------------------------------------------------------------
    {
        fn k_one(_: f64) -> f64 {
            1.0
        }
        fn k_tri(x: f64) -> f64 {
            (1.0 - x.abs()).max(0.0)
        }
        fn k_bell(x: f64) -> f64 {
            (-x * x).exp()
        }
        const SUPPORTS: [f64; 18] = [f64::NAN, f64::NEG_INFINITY, -1e300, -1.0, -5e-324, -0.0, 0.0, 5e-324, 1e-300, 1e-9, 0.25, 0.5, 1.0, 1.5, 3.0, 17.0, 64.0, f64::INFINITY];
        const KERNELS: [(&str, fn(f64) -> f64); 3] = [("one", k_one), ("triangle", k_tri), ("bell", k_bell)];
        const SIZES: [(u32, u32); 8] = [(1, 1), (1, 5), (5, 1), (4, 7), (7, 4), (16, 3), (3, 16), (2, 2)];
        let dimsf = vec![SUPPORTS.len() as u64, KERNELS.len() as u64, SIZES.len() as u64, 3];
        let (df, bf) = (dimsf.clone(), bes.clone());
        p.spaces.push(
            Space::new("custom filter construction and use: 18 support values (NaN, +-inf, negative, +-0, denormal .. 64) x 3 non-negative kernels x sizes x {Convolution, Interpolation, SuperSampling} (13 pixel types x back-ends inside, fenced)", product(&dimsf), move |idx, ctx| {
                let mut d = [0usize; 4];
                decode(idx, &df, &mut d);
                let support = SUPPORTS[d[0]];
                let (kname, kf) = KERNELS[d[1]];
                let (n_in, n_out) = SIZES[d[2]];
                let akind = ["Convolution", "Interpolation", "SuperSampling(2)"][d[3]];
                ctx.sample(|| json!({"support": format!("{:e}", support), "kernel": kname, "n_in": n_in, "n_out": n_out, "alg_kind": akind}));
                if ctx.describe_only {
                    return;
                }
                let valid = support.is_finite() && support > 0.0;
                let made = guarded(|| fir::Filter::new("custom", kf, support));
                ctx.ops += 1;
                let filter = match made {
                    Err((loc, msg)) => {
                        ctx.violation(format!("C03|Filter::new|panic|{}|{}", loc, panic_class(&msg)), || json!({"support": format!("{:e}", support), "message": msg}));
                        return;
                    }
                    Ok(Err(_)) => {
                        if valid {
                            ctx.violation("C03|Filter::new|a finite positive support was rejected", || json!({"support": format!("{:e}", support)}));
                        }
                        ctx.outcome(0);
                        ctx.nontrivial += 1;
                        return;
                    }
                    Ok(Ok(f)) => f,
                };
                if !valid {
                    ctx.violation("C03|Filter::new|accepted a support that is not finite and positive (documented: InvalidSupport)", || json!({"support": format!("{:e}", support), "kernel": kname}));
                    // do not use it: an infinite support asks for an unbounded allocation
                    return;
                }
                let ft = fir::FilterType::Custom(filter);
                let alg = match d[3] {
                    0 => fir::ResizeAlg::Convolution(ft),
                    1 => fir::ResizeAlg::Interpolation(ft),
                    _ => fir::ResizeAlg::SuperSampling(ft, 2),
                };
                // the head-room premise, decided with the implementation's own tables
                let headroom = matches!(
                    guarded(|| {
                        let dump = fir::verif::coefficients(n_in, 0.0, n_in as f64, n_out, ft, d[3] != 1, false, false);
                        (0..dump.bounds.len()).all(|j| coef::sum_abs(&dump, j) < 3.999)
                    }),
                    Ok(true)
                );
                for (pi, &pt) in ALL_PT.iter().enumerate() {
                    let be = bf[(pi + idx as usize) % bf.len()];
                    if pt.ck() == CK::I32 && be != BE::None {
                        continue;
                    }
                    for horiz in [true, false] {
                        let (sw, sh, dw, dh) = if horiz { (n_in, 3, n_out, 3) } else { (3, n_in, 3, n_out) };
                        let src = content(pt, sw, sh, seed ^ idx ^ pi as u64);
                        let r = guarded(|| {
                            fenced(|| {
                                let mut rz = new_resizer(be);
                                let mut dst = Raw::filled(pt, dw, dh, 0x5A);
                                let o = fir::ResizeOptions::new().resize_alg(alg).use_alpha(pi % 2 == 0);
                                let s = src.image_ref();
                                let mut dimg = fir::images::Image::from_slice_u8(dw, dh, dst.buf.as_mut(), pt.fir()).unwrap();
                                let r = rz.resize(&s, &mut dimg, &o);
                                (r.is_ok(), fnv(dst.bytes()))
                            })
                        });
                        ctx.ops += 1;
                        match r {
                            Ok((ok, h)) => ctx.outcome(mix(ok as u64, h)),
                            Err((loc, msg)) => {
                                if !headroom {
                                    ctx.note("custom-support calls outside the head-room premise that panicked (allowed: memory safety only)", 1);
                                } else {
                                    ctx.violation(format!("C03|custom support|panic|{}|{}", loc, panic_class(&msg)), || {
                                        json!({"support": format!("{:e}", support), "kernel": kname, "src": [sw, sh], "dst": [dw, dh], "pixel": format!("{:?}", pt), "backend": format!("{:?}", be), "message": msg, "panic_at": loc})
                                    });
                                }
                            }
                        }
                    }
                    ctx.class(mix(mix(pt.idx() as u64, d[0] as u64), mix(d[1] as u64 + 900, d[3] as u64)));
                }
                ctx.nontrivial += 1;
            })
            .isolated(),
        );
    }

    // ------------------------------------------------------------------------------------------
    // (2'') crop boxes aligned with the zeros of the kernels, and boxes of denormal width, in a
    //       two-pass resize. A sample centre that sits exactly a whole number of kernel periods
    //       away from a pixel centre gives that pixel an exact zero weight; the coefficient table
    //       trims leading/trailing zeros per window, so the first window can start *after* the
    //       second one. A box a denormal wide has a scale that underflows to 0.
    // ------------------------------------------------------------------------------------------
    {
        const ZPT: [PT; 5] = [PT::U8, PT::U8x4, PT::U16, PT::F32, PT::I32];
        let zf: Vec<Alg> = FILT.iter().flat_map(|f| [Alg::Conv(*f), Alg::Interp(*f)]).collect();
        // crop length along the aligned axis as (numerator, denominator) x n_out, or an absolute tiny length
        const LENS: [(f64, bool); 7] = [(0.25, true), (0.5, true), (2.0, true), (3.0, true), (1.5, true), (5e-324, false), (2.3e-308, false)];
        let dimsz = vec![zf.len() as u64, 8, LENS.len() as u64, 16, 2];
        let (dz, bz) = (dimsz.clone(), bes.clone());
        p.spaces.push(
            Space::new("kernel-zero aligned and denormal crop boxes in two-pass resizes: filter x {Conv,Interp} x n_out 1..8 x box length {n_out/4, n_out/2, 2 n_out, 3 n_out, 1.5 n_out, 5e-324, 2.3e-308} x origin k/8 x axis (5 pixel types x back-ends inside, fenced)", product(&dimsz), move |idx, ctx| {
                let mut d = [0usize; 5];
                decode(idx, &dz, &mut d);
                let alg = zf[d[0]];
                let n_out = d[1] as u32 + 1;
                let (lv, rel) = LENS[d[2]];
                let len = if rel { lv * n_out as f64 } else { lv };
                let left = d[3] as f64 / 8.0;
                let axis_x = d[4] == 0;
                let n_in = ((left + len).ceil() as u32).max(1) + 2;
                ctx.sample(|| json!({"alg": format!("{:?}", alg), "n_out": n_out, "crop_origin": left, "crop_length": format!("{:e}", len), "n_in": n_in, "aligned_axis": if axis_x { "x" } else { "y" }}));
                if ctx.describe_only {
                    return;
                }
                // the other axis is resized too (5 -> 3), so that both passes run
                let (sw, sh, dw, dh) = if axis_x { (n_in, 5, n_out, 3) } else { (5, n_in, 3, n_out) };
                let ca = Crop1 { start: left, len };
                let co = Crop1 { start: 0.0, len: 5.0 };
                let (cx, cy) = if axis_x { (ca, co) } else { (co, ca) };
                for (pi, &pt) in ZPT.iter().enumerate() {
                    for &be in bz.iter() {
                        if pt.ck() == CK::I32 && be != BE::None {
                            continue;
                        }
                        let src = content(pt, sw, sh, seed ^ idx ^ pi as u64);
                        let mut o = Opts::new(alg);
                        o.cx = Some(cx);
                        o.cy = Some(cy);
                        o.alpha = pt.has_alpha() && idx % 2 == 0;
                        let r = guarded(|| {
                            fenced(|| {
                                let mut rz = new_resizer(be);
                                let mut dst = Raw::filled(pt, dw, dh, 0x5A);
                                let r = resize_into(&mut rz, &src, &mut dst, &o);
                                (r.is_ok(), fnv(dst.bytes()))
                            })
                        });
                        ctx.ops += 1;
                        match r {
                            Ok((ok, h)) => ctx.outcome(mix(ok as u64, h)),
                            Err((loc, msg)) => ctx.violation(format!("C03|aligned crop|panic|{}|{}", loc, panic_class(&msg)), || {
                                json!({"src": [sw, sh], "dst": [dw, dh], "alg": format!("{:?}", alg), "crop_x": format!("{:?}", cx), "crop_y": format!("{:?}", cy), "pixel": format!("{:?}", pt), "backend": format!("{:?}", be), "message": msg, "panic_at": loc})
                            }),
                        }
                        ctx.class(mix(mix(pt.idx() as u64, be as u64), mix(d[0] as u64 + 700, mix(d[2] as u64, d[4] as u64))));
                    }
                }
                ctx.nontrivial += 1;
            })
            .isolated(),
        );
    }

    // ------------------------------------------------------------------------------------------
    // (2a) kernel sweep in fenced memory: every residue of kernel length / row bytes / line count
    //      (the SIMD main loops, remainders and tails) with the source rows, the destination, the
    //      coefficient vectors and the scratch images each ending at a guard page
    // ------------------------------------------------------------------------------------------
    let (ni, no): (u64, u64) = tier.pick((40, 12), (72, 24));
    let kalgs = [Alg::Conv(F::Box), Alg::Conv(F::Bilinear), Alg::Conv(F::CatmullRom), Alg::Conv(F::Lanczos3), Alg::Interp(F::Lanczos3), Alg::SS(F::Hamming, 2)];
    let dimsk = vec![ni, no, 6, kalgs.len() as u64, 2];
    let (dk, bk) = (dimsk.clone(), bes.clone());
    p.spaces.push(
        Space::new("kernel sweep in fenced memory: n_in x n_out x crop x 6 algorithms x orientation (rotating pixel types, back-ends, line counts 1..9, containers)", product(&dimsk), move |idx, ctx| {
            let mut d = [0usize; 5];
            decode(idx, &dk, &mut d);
            let (n_in, n_out) = (d[0] as u32 + 1, d[1] as u32 + 1);
            let crops = crop1_small(n_in);
            if d[2] >= crops.len() {
                return;
            }
            let (crop, alg, horiz) = (crops[d[2]], kalgs[d[3]], d[4] == 0);
            let k = idx as usize;
            let lines = (k / 7 % 9) as u32 + 1;
            ctx.sample(|| json!({"n_in": n_in, "n_out": n_out, "crop": [crop.start, crop.len], "alg": format!("{:?}", alg), "orientation": if horiz { "horizontal" } else { "vertical" }, "lines": lines}));
            if ctx.describe_only {
                return;
            }
            // two pixel types per case; over the space every type meets every (n_in, n_out, alg) residue class
            for (pi, pt) in [ALL_PT[k % 13], ALL_PT[(k / 13 + 6) % 13]].into_iter().enumerate() {
                let (sw, sh, dw, dh) = if horiz { (n_in, lines, n_out, lines) } else { (lines, n_in, lines, n_out) };
                let src = content(pt, sw, sh, seed ^ idx ^ 77);
                let mut o = Opts::new(alg);
                if horiz {
                    o.cx = Some(crop);
                } else {
                    o.cy = Some(crop);
                }
                o.alpha = pt.has_alpha() && k % 3 == 0;
                let fo = o.to_fir(sw, sh);
                for (bi, &be) in bk.iter().enumerate() {
                    if pt.ck() == CK::I32 && bi > 0 {
                        continue;
                    }
                    let typed = TYPED_PTS.contains(&pt) && (k + bi) % 2 == 0;
                    let (sk, dk2) = if typed { (SrcK::TRef, DstK::TSlice) } else if (k + bi) % 3 == 0 { (SrcK::CropOfRef, DstK::CropMutOfImg) } else { (SrcK::RefNew, DstK::ImgSlice) };
                    let r = guarded(|| {
                        let mut rz = new_resizer(be);
                        let mut op = OpSpec::Resize(&mut rz, fo);
                        fenced(|| run_one(&mut op, typed, sk, dk2, &src, pt, dw, dh, PLACES[(k + 1) % PLACES.len()], PLACES[(k + 5) % PLACES.len()], 0, Mem::FencedEnd, 0x5A))
                    });
                    ctx.ops += 1;
                    match r {
                        Ok((out, _)) => {
                            if let Err(e) = &out.result {
                                ctx.violation("C03|kernel sweep|valid call failed", || json!({"err": e, "n_in": n_in, "n_out": n_out, "crop": [crop.start, crop.len], "alg": format!("{:?}", alg), "pixel": format!("{:?}", pt)}));
                            }
                            ctx.outcome(fnv(out.rect.bytes()));
                        }
                        Err((loc, msg)) => ctx.violation(format!("C03|kernel sweep|panic|{}|{}", loc, panic_class(&msg)), || {
                            json!({"n_in": n_in, "n_out": n_out, "crop": [crop.start, crop.len], "alg": format!("{:?}", alg), "pixel": format!("{:?}", pt), "backend": format!("{:?}", be), "lines": lines, "horizontal": horiz, "message": msg})
                        }),
                    }
                    ctx.class(mix(mix(pt.idx() as u64 + 3000, be as u64), mix((n_in % 16) as u64 * 16 + (n_out % 8) as u64, (lines % 4) as u64 * 8 + d[3] as u64)));
                    let _ = pi;
                }
            }
            ctx.nontrivial += 1;
        })
        .isolated(),
    );

    // ------------------------------------------------------------------------------------------
    // (2b) alpha / mapper / conversion operations and constructors on fenced containers
    // ------------------------------------------------------------------------------------------
    let dims3 = vec![smax, smax, 9, 13];
    let (d3, b3) = (dims3.clone(), bes.clone());
    p.spaces.push(
        Space::new("API sweep: alpha / mapper / conversion operations x (w,h) incl. 0 x 13 pixel types (fenced)", product(&dims3), move |idx, ctx| {
            let mut d = [0usize; 4];
            decode(idx, &d3, &mut d);
            let (w, h, opk, pt) = (d[0] as u32, d[1] as u32, d[2], ALL_PT[d[3]]);
            ctx.sample(|| json!({"size": [w, h], "op": opk, "pixel": format!("{:?}", pt)}));
            if ctx.describe_only {
                return;
            }
            let k = idx as usize;
            let src = content(pt, w, h, seed ^ idx);
            let dpts: Vec<PT> = match opk {
                4 | 5 | 8 => ALL_PT.to_vec(),
                _ => vec![pt],
            };
            for dpt in dpts {
                for (dk, sk) in [(DstK::ImgSlice, SrcK::RefNew), (DstK::ImgSliceSpare, SrcK::CropOfRef), (DstK::CropMutOfImg, SrcK::RefNew)] {
                    if (dk.is_crop() || sk.is_crop()) && (w == 0 || h == 0) {
                        continue;
                    }
                    let be = b3[(k + dk as usize) % b3.len()];
                    let r = guarded(|| {
                        let md = mul_div(be);
                        let mp = mapper(k % 2);
                        let mut op = match opk {
                            0 => OpSpec::MulAlpha(&md),
                            1 => OpSpec::DivAlpha(&md),
                            2 => OpSpec::MulAlphaInplace(&md),
                            3 => OpSpec::DivAlphaInplace(&md),
                            4 => OpSpec::MapFwd(mp),
                            5 => OpSpec::MapBwd(mp),
                            6 => OpSpec::MapFwdInplace(mp),
                            7 => OpSpec::MapBwdInplace(mp),
                            _ => OpSpec::ChangeType,
                        };
                        // size mismatch variant on odd cases
                        let (dw, dh) = if k % 5 == 4 && !op.is_inplace() { (w + 1, h) } else { (w, h) };
                        fenced(|| run_one(&mut op, false, sk, dk, &src, dpt, dw, dh, PLACES[k % PLACES.len()], PLACES[(k + 3) % PLACES.len()], spare_for(k, w.max(1)), Mem::FencedEnd, 0x5A))
                    });
                    ctx.ops += 1;
                    match r {
                        Ok((out, _)) => ctx.outcome(mix(out.result.is_ok() as u64, fnv(out.rect.bytes()))),
                        Err((loc, msg)) => ctx.violation(format!("C03|api|panic|{}|{}", loc, panic_class(&msg)), || json!({"size": [w, h], "op": opk, "src_pixel": format!("{:?}", pt), "dst_pixel": format!("{:?}", dpt), "dst_kind": format!("{:?}", dk), "message": msg})),
                    }
                }
            }
            ctx.class(mix(d[2] as u64 + 70, mix(d[3] as u64, (w.min(2) * 3 + h.min(2)) as u64)));
            ctx.nontrivial += 1;
        })
        .isolated(),
    );

    // ------------------------------------------------------------------------------------------
    // (2c) public view methods called directly with arbitrary arguments
    // ------------------------------------------------------------------------------------------
    let vmax: u64 = tier.pick(4, 6) + 1;
    let dims4 = vec![vmax, vmax, 5];
    let d4 = dims4.clone();
    p.spaces.push(
        Space::new("view methods: iter_rows / iter_2_rows / iter_4_rows / iter_rows_with_step / split_by_* with arbitrary arguments on 5 view kinds x (w,h) incl. 0 (fenced)", product(&dims4), move |idx, ctx| {
            let mut d = [0usize; 3];
            decode(idx, &d4, &mut d);
            let (w, h, kind) = (d[0] as u32, d[1] as u32, d[2]);
            ctx.sample(|| json!({"view": [w, h], "kind": kind, "args": "start/max in 0..h+3 and near u32::MAX; start_y, step in {-1,-0.0,0,2^-20,0.5,1,2.5,h,h+1,NaN,±inf}; split triples"}));
            if ctx.describe_only {
                return;
            }
            let (ml, mt) = (1u32, 2u32);
            let (pw, ph) = (w + ml + 1, h + mt + 1);
            let fl: Vec<f64> = vec![-1.0, -0.0, 0.0, (2.0f64).powi(-20), 0.5, 1.0, 2.5, h as f64, h as f64 + 1.0, f64::NAN, f64::INFINITY, f64::NEG_INFINITY, 1e300, -1e300, 4294967296.5];
            let us: Vec<u32> = {
                let mut v: Vec<u32> = (0..=h + 3).collect();
                v.extend([u32::MAX, u32::MAX - 1, 1 << 31]);
                v
            };
            let r = guarded(|| {
                fn drive<V: ImageView<Pixel = U16>>(v: &V, us: &[u32], fl: &[f64], ops: &mut u64) -> u64 {
                    let mut acc = 0u64;
                    let w = v.width() as usize;
                    let mut touch = |row: &[U16]| {
                        // read first and last pixel of the row: an over-long row faults at the fence
                        if let (Some(a), Some(b)) = (row.first(), row.last()) {
                            acc = acc.wrapping_mul(31).wrapping_add(a.0 as u64 + b.0 as u64 + row.len() as u64);
                        }
                        assert!(row.len() == w, "row of {} pixels in a view of width {}", row.len(), w);
                    };
                    for &s in us {
                        for row in v.iter_rows(s) {
                            touch(row);
                        }
                        *ops += 1;
                        for &m in us {
                            for rows in v.iter_2_rows(s, m) {
                                touch(rows[0]);
                                touch(rows[1]);
                            }
                            for rows in v.iter_4_rows(s, m) {
                                touch(rows[3]);
                            }
                            *ops += 2;
                        }
                    }
                    for &y0 in fl {
                        for &st in fl {
                            for m in [0u32, 1, 3, 4097] {
                                // bounded consumption: a non-positive/NaN step may yield many rows
                                for row in v.iter_rows_with_step(y0, st, m).take(70) {
                                    touch(row);
                                }
                                *ops += 1;
                            }
                        }
                    }
                    for &s in us {
                        for &z in us {
                            for &p in us {
                                let (Some(z), Some(p)) = (NonZeroU32::new(z), NonZeroU32::new(p)) else { continue };
                                if p.get() > 64 && z.get() > 64 {
                                    // both huge: a valid answer would be None; still must not crash
                                }
                                if let Some(parts) = v.split_by_height(s, z, p) {
                                    for q in parts.iter() {
                                        for row in q.iter_rows(0) {
                                            acc = acc.wrapping_add(row.len() as u64);
                                        }
                                    }
                                }
                                if let Some(parts) = v.split_by_width(s, z, p) {
                                    for q in parts.iter() {
                                        for row in q.iter_rows(0) {
                                            acc = acc.wrapping_add(row.len() as u64);
                                        }
                                    }
                                }
                                *ops += 2;
                            }
                        }
                    }
                    acc
                }
                fn drive_mut<V: ImageViewMut<Pixel = U16>>(v: &mut V, us: &[u32], ops: &mut u64) {
                    let w = v.width() as usize;
                    for &s in us {
                        for row in v.iter_rows_mut(s) {
                            assert!(row.len() == w);
                            if let Some(a) = row.last_mut() {
                                a.0 = a.0.wrapping_add(1);
                            }
                        }
                        *ops += 1;
                    }
                    for rows in v.iter_2_rows_mut() {
                        rows[1][0].0 = 7;
                    }
                    for rows in v.iter_4_rows_mut() {
                        rows[3][0].0 = 9;
                    }
                    for &s in us {
                        for &z in us {
                            for &p in us {
                                let (Some(z), Some(p)) = (NonZeroU32::new(z), NonZeroU32::new(p)) else { continue };
                                if let Some(mut parts) = v.split_by_height_mut(s, z, p) {
                                    for q in parts.iter_mut() {
                                        for row in q.iter_rows_mut(0) {
                                            if let Some(a) = row.first_mut() {
                                                a.0 = 1;
                                            }
                                        }
                                    }
                                }
                                if let Some(mut parts) = v.split_by_width_mut(s, z, p) {
                                    for q in parts.iter_mut() {
                                        for row in q.iter_rows_mut(0) {
                                            if let Some(a) = row.last_mut() {
                                                a.0 = 2;
                                            }
                                        }
                                    }
                                }
                                *ops += 2;
                            }
                        }
                    }
                }
                let mut ops = 0u64;
                let mut acc = 0u64;
                let whole = matches!(kind, 0 | 1);
                let (bw, bh) = if whole { (w, h) } else { (pw, ph) };
                let mut buf = PBuf::new(bw as usize * bh as usize * 2, Mem::FencedEnd, 0x11);
                fenced(|| match kind {
                    0 => {
                        let v = TypedImageRef::<U16>::new(w, h, as_pixels::<U16>(buf.as_ref())).unwrap();
                        acc = drive(&v, &us, &fl, &mut ops);
                    }
                    1 => {
                        let mut v = TypedImage::<U16>::from_pixels_slice(w, h, as_pixels_mut::<U16>(buf.as_mut())).unwrap();
                        acc = drive(&v, &us, &fl, &mut ops);
                        drive_mut(&mut v, &us, &mut ops);
                    }
                    2 => {
                        if w > 0 && h > 0 {
                            let parent = TypedImageRef::<U16>::new(pw, ph, as_pixels::<U16>(buf.as_ref())).unwrap();
                            let v = TypedCroppedImage::from_ref(&parent, ml, mt, w, h).unwrap();
                            acc = drive(&v, &us, &fl, &mut ops);
                        }
                    }
                    3 => {
                        if w > 0 && h > 0 {
                            let parent = TypedImage::<U16>::from_pixels_slice(pw, ph, as_pixels_mut::<U16>(buf.as_mut())).unwrap();
                            let mut v = TypedCroppedImageMut::new(parent, ml, mt, w, h).unwrap();
                            acc = drive(&v, &us, &fl, &mut ops);
                            drive_mut(&mut v, &us, &mut ops);
                        }
                    }
                    _ => {
                        if w > 0 && h > 0 {
                            let parent = TypedImage::<U16>::from_pixels_slice(pw, ph, as_pixels_mut::<U16>(buf.as_mut())).unwrap();
                            let outer = TypedCroppedImageMut::new(parent, 0, 1, pw, ph - 1).unwrap();
                            let mut v = TypedCroppedImageMut::new(outer, ml, mt - 1, w, h).unwrap();
                            acc = drive(&v, &us, &fl, &mut ops);
                            drive_mut(&mut v, &us, &mut ops);
                        }
                    }
                });
                (ops, acc)
            });
            match r {
                Ok((ops, acc)) => {
                    ctx.ops += ops;
                    ctx.outcome(acc);
                }
                Err((loc, msg)) => ctx.violation(format!("C03|view methods|panic|{}|{}", loc, panic_class(&msg)), || json!({"view": [w, h], "kind": kind, "message": msg, "panic_at": loc})),
            }
            ctx.class(mix(d[2] as u64 + 90, (w.min(2) * 3 + h.min(2)) as u64));
            ctx.nontrivial += 1;
        })
        .isolated(),
    );

    // ------------------------------------------------------------------------------------------
    // (3) histories with fenced, misaligned scratch buffers
    // ------------------------------------------------------------------------------------------
    let acts = c09::alphabet(tier, false);
    let depth: usize = tier.pick(2, 3);
    let na = acts.len() as u64;
    let a3 = acts.clone();
    p.spaces.push(
        Space::new("histories: every Resizer call sequence of the C09 alphabet up to the depth, each scratch buffer in its own fenced (and therefore misaligned) mapping", na, move |idx, ctx| {
            ctx.sample(|| json!({"first_action": format!("{:?}", a3[idx as usize]), "then": format!("all sequences of {} more actions from the {}-action alphabet", depth - 1, a3.len())}));
            if ctx.describe_only {
                return;
            }
            // DFS over all paths starting with action idx; every node's Resizer is re-created by
            // replaying the path on ONE live Resizer (a clone would reset the spare capacity of the
            // scratch Vecs, which is part of the state a history builds up)
            fn rec(ctx: &mut Ctx, acts: &[c09::Act], path: &mut Vec<u16>, depth: usize) {
                if path.len() == depth {
                    return;
                }
                for a in 0..acts.len() {
                    // thin the last level for depth 3: the second-to-last level is complete
                    if depth >= 3 && path.len() == depth - 1 && (a + path[0] as usize + path[1] as usize) % 4 != 0 {
                        continue;
                    }
                    let Some((mut rz, mut be)) = fenced(|| c09::rebuild(acts, path)) else { continue };
                    let (viols, oh) = fenced(|| c09::step_live(&mut rz, &mut be, acts[a], a, path.len() as u8));
                    ctx.ops += 1;
                    path.push(a as u16);
                    for (sig, d) in viols {
                        let pth = path.clone();
                        let sig = sig.replacen("C09|", "C03|history|", 1);
                        ctx.violation(sig, || json!({"path": pth, "actions": pth.iter().map(|i| format!("{:?}", acts[*i as usize])).collect::<Vec<_>>(), "more": d}));
                    }
                    ctx.outcome(oh);
                    drop(rz);
                    rec(ctx, acts, path, depth);
                    path.pop();
                }
            }
            let a = idx as usize;
            let mut rz0 = fir::Resizer::new();
            let mut be0 = *backends().last().unwrap();
            let (viols, _) = fenced(|| c09::step_live(&mut rz0, &mut be0, a3[a], a, 0));
            ctx.ops += 1;
            for (sig, d) in viols {
                ctx.violation(sig.replacen("C09|", "C03|history|", 1), || json!({"path": [a], "more": d}));
            }
            drop(rz0);
            let mut path = vec![a as u16];
            rec(ctx, &a3, &mut path, depth);
            ctx.class(mix(idx, 0xC3));
            ctx.nontrivial += 1;
        })
        .isolated(),
    );

    // (3b) the ladder alphabet (growing scratch-buffer sizes within a factor of two, reset, clone), deeper
    let lad = c09::ladder_alphabet();
    let ldepth: usize = tier.pick(3, 4);
    let nl = lad.len() as u64;
    let l3 = lad.clone();
    p.spaces.push(
        Space::new("histories: the scratch-buffer size ladders (three growing sizes within a factor of two, reset, clone) to a greater depth, fenced", nl * nl, move |idx, ctx| {
            let (a, b) = ((idx / nl) as usize, (idx % nl) as usize);
            ctx.sample(|| json!({"first_actions": [format!("{:?}", l3[a]), format!("{:?}", l3[b])], "then": format!("all sequences of {} more ladder actions", ldepth - 2)}));
            if ctx.describe_only {
                return;
            }
            fn rec(ctx: &mut Ctx, acts: &[c09::Act], path: &mut Vec<u16>, depth: usize) {
                let Some((mut rz, mut be)) = fenced(|| c09::rebuild(acts, &path[..path.len() - 1])) else { return };
                let last = *path.last().unwrap() as usize;
                let (viols, oh) = fenced(|| c09::step_live(&mut rz, &mut be, acts[last], last, (path.len() - 1) as u8));
                ctx.ops += 1;
                for (sig, d) in viols {
                    let pth = path.clone();
                    ctx.violation(sig.replacen("C09|", "C03|history|", 1), || json!({"alphabet": "ladder", "path": pth, "actions": pth.iter().map(|i| format!("{:?}", acts[*i as usize])).collect::<Vec<_>>(), "more": d}));
                }
                ctx.outcome(oh);
                drop(rz);
                if path.len() < depth {
                    for n in 0..acts.len() {
                        path.push(n as u16);
                        rec(ctx, acts, path, depth);
                        path.pop();
                    }
                }
            }
            let mut path = vec![a as u16, b as u16];
            rec(ctx, &l3, &mut path, ldepth);
            ctx.class(mix(idx, 0xC3B));
            ctx.nontrivial += 1;
        })
        .isolated(),
    );

    p.rule = "(1) model: for every geometry of the model space x 7 built-in + 14 custom kernels (sharp, lanczos4, sum|w| = 4..1e6, zero-mean, negative, NaN, 1e300, denormal) the real tables are read through the hook and window bounds, the clip-table index range for ALL 8-bit contents, accumulator ranges and the SIMD precision dispatch are checked (memory safety unconditionally, panic freedom under sum|w| < 4); (2) API sweep in isolated children with guard pages behind every image buffer and every small-alignment heap block: sizes (0..S)^4 x 30 algorithms incl. wild kernels and SuperSampling multiplicity 0..255 x valid and invalid crop alphabets x rotating pixel types, back-ends and containers; alpha/mapper/conversion operations; the public view methods with arbitrary integer and float arguments (negative, NaN, inf, near u32::MAX) on 5 view kinds; (3) every Resizer history of the C09 alphabet up to the depth with fenced, misaligned scratch buffers. Verdict: Ok or a documented Err; no signal, no abort, no panic (panics allowed only for kernels outside the head-room, where memory safety is still required)".into();
    p.bounds = json!({"S": smax - 1, "history_depth": depth, "model_pairs": pairs.len(), "filters": filters.len()});
    p.assumptions = vec![
        "the static clip table is not fenceable: its index range is decided on the coefficient model (I-idx) for all contents".into(),
        "NaN-valued custom kernels are outside the statement (finite-valued kernels only); they are executed but may panic".into(),
        "heap fencing covers blocks with alignment <= 8 up to 64 MiB; Vec capacity beyond len is not fenced".into(),
    ];
    p
}
