//! firmc — bounded-exhaustive / explicit-state checking of fast_image_resize.
//!
//! usage: firmc <Cxx> <quick|thorough> [--replay <file>] [--sub] [--child <spec>]
mod alg;
mod coef;
mod containers;
mod conv;
mod explore;
mod guard;
mod ideal;
mod props;
mod px;
mod typed;

use explore::*;

#[global_allocator]
static GLOBAL: guard::Efence = guard::Efence;
use serde_json::{json, Value};
use std::collections::{BTreeMap, BTreeSet};
use std::time::Instant;

#[derive(Clone, Copy, PartialEq, Eq, Debug)]
pub enum Tier {
    Quick,
    Thorough,
}

impl Tier {
    pub fn name(self) -> &'static str {
        match self {
            Tier::Quick => "quick",
            Tier::Thorough => "thorough",
        }
    }
    pub fn pick<T>(self, q: T, t: T) -> T {
        match self {
            Tier::Quick => q,
            Tier::Thorough => t,
        }
    }
}

/// What a property module hands to the driver.
pub struct Prop {
    pub id: &'static str,
    pub spaces: Vec<Space>,
    /// Engines that are not index spaces (stateright searches …): run on the driver side only.
    pub extra: Vec<Box<dyn Fn(&RunCfg) -> Report + Send + Sync>>,
    pub rule: String,
    pub assumptions: Vec<String>,
    pub bounds: Value,
    /// run the same spaces in the debug-assertion build as well
    pub both_profiles: bool,
    /// minimum number of distinct outcome hashes expected (vacuity guard)
    pub min_outcomes: usize,
    /// replay of violations that do not come from an index space (engine-specific)
    pub replay_fn: Option<Box<dyn Fn(&Value) -> Vec<(String, Value)> + Send + Sync>>,
}

impl Prop {
    pub fn new(id: &'static str) -> Self {
        Prop {
            id,
            spaces: vec![],
            extra: vec![],
            rule: String::new(),
            assumptions: vec![],
            bounds: json!({}),
            both_profiles: false,
            min_outcomes: 2,
            replay_fn: None,
        }
    }
}

pub fn profile_name() -> &'static str {
    if cfg!(debug_assertions) {
        "dbg"
    } else {
        "release"
    }
}

fn usage() -> ! {
    eprintln!("usage: firmc <Cxx> <quick|thorough> [--replay file] [--sub] [--child spec]");
    std::process::exit(2)
}

fn main() {
    let args: Vec<String> = std::env::args().collect();
    if args.len() < 3 {
        usage();
    }
    let id = args[1].clone();
    let tier = match args[2].as_str() {
        "quick" => Tier::Quick,
        "thorough" => Tier::Thorough,
        _ => usage(),
    };
    let seed: u64 = std::env::var("VERIF_SEED").ok().and_then(|s| s.parse().ok()).unwrap_or(0);
    let mut replay: Option<String> = None;
    let mut child: Option<String> = None;
    let mut sub = false;
    let mut i = 3;
    while i < args.len() {
        match args[i].as_str() {
            "--replay" => {
                replay = args.get(i + 1).cloned();
                i += 1;
            }
            "--child" => {
                child = args.get(i + 1).cloned();
                i += 1;
            }
            "--sub" => sub = true,
            _ => usage(),
        }
        i += 1;
    }
    install_quiet_panic_hook();
    let t0 = Instant::now();
    if id == "C09" {
        if let Ok(spec) = std::env::var("C09_SEARCH") {
            props::c09::child_search(tier, &spec);
            return;
        }
    }
    let prop = match props::get(&id, tier, seed) {
        Some(p) => p,
        None => {
            eprintln!("MACHINERY-ERROR unknown property {}", id);
            std::process::exit(2);
        }
    };

    // ---- child of an isolated exploration
    if let Some(spec) = child {
        // ord:k:chunk:resume_from:resume_to:millis:shm_path
        let parts: Vec<&str> = spec.splitn(7, ':').collect();
        let ord: usize = parts[0].parse().unwrap();
        let k: usize = parts[1].parse().unwrap();
        let chunk: u64 = parts[2].parse().unwrap();
        let resume: (u64, u64) = (parts[3].parse().unwrap(), parts[4].parse().unwrap());
        let ms: u64 = parts[5].parse().unwrap();
        let shm = parts[6];
        let deadline = Instant::now() + std::time::Duration::from_millis(ms);
        child_main(&prop.spaces[ord], prop.id, k, chunk, resume, shm, deadline);
        return;
    }

    // ---- replay of one recorded case
    if let Some(path) = replay {
        std::process::exit(do_replay(&prop, &path));
    }

    let cap_s: u64 = std::env::var("VERIF_WALL_CAP")
        .ok()
        .and_then(|s| s.parse().ok())
        .unwrap_or(tier.pick(600, 2400));
    let threads: usize = std::env::var("VERIF_THREADS")
        .ok()
        .and_then(|s| s.parse().ok())
        .unwrap_or_else(|| std::thread::available_parallelism().map(|n| n.get()).unwrap_or(8));
    let cfg = RunCfg { prop: prop.id.to_string(), threads, deadline: deadline_from_secs(cap_s) };

    let mut total = Report::default();
    let child_args = vec![id.clone(), tier.name().to_string()];
    for (ord, sp) in prop.spaces.iter().enumerate() {
        let t = Instant::now();
        let rep = if sp.isolate {
            explore_isolated(sp, &cfg, ord, &child_args)
        } else {
            explore_threads(sp, &cfg, 0, sp.n, None)
        };
        let mut rep = rep;
        rep.spaces.push(json!({
            "space": sp.name, "profile": profile_name(), "planned": sp.n, "executed": rep.cases,
            "isolated": sp.isolate, "cap_hit": rep.cap_hit, "wall_s": t.elapsed().as_secs_f64(),
            "violating_cases": rep.sig_counts.values().sum::<u64>(),
        }));
        if !sub {
            eprintln!(
                "[{} {} {}] space {:<28} cases {:>10}/{:<10} ops {:>12} viol {:>6} {:.1}s",
                prop.id,
                tier.name(),
                profile_name(),
                sp.name,
                rep.cases,
                sp.n,
                rep.ops,
                rep.sig_counts.values().sum::<u64>(),
                t.elapsed().as_secs_f64()
            );
        }
        total.merge(rep);
    }
    for e in prop.extra.iter() {
        let rep = e(&cfg);
        total.merge(rep);
    }

    // describe crashed cases & confirm violations deterministically (in-process cases only)
    confirm(&prop, &mut total);

    if sub {
        // machine-readable partial report for the driver in the other profile
        println!("{}", report_to_json_full(&total));
        return;
    }

    // ---- second profile
    let mut profiles = vec![profile_name().to_string()];
    if prop.both_profiles && std::env::var("VERIF_SINGLE_PROFILE").is_err() {
        let other = if profile_name() == "release" { "dbg" } else { "release" };
        let exe = std::env::current_exe().unwrap();
        let other_exe = exe.parent().unwrap().parent().unwrap().join(other).join("firmc");
        if !other_exe.exists() {
            eprintln!("MACHINERY-ERROR missing {} build of the harness: {}", other, other_exe.display());
            std::process::exit(2);
        }
        let out = std::process::Command::new(&other_exe)
            .args([id.as_str(), tier.name(), "--sub"])
            .stderr(std::process::Stdio::inherit())
            .output()
            .expect("spawn other profile");
        if !out.status.success() {
            eprintln!("MACHINERY-ERROR {} build of the harness failed: {:?}", other, out.status);
            std::process::exit(2);
        }
        let text = String::from_utf8_lossy(&out.stdout);
        let line = text.lines().rev().find(|l| l.starts_with('{')).unwrap_or("{}");
        let v: Value = serde_json::from_str(line).unwrap_or(json!({}));
        let mut r = report_from_json(&v);
        r.planned = v["planned"].as_u64().unwrap_or(0);
        if let Some(a) = v["spaces"].as_array() {
            r.spaces = a.clone();
        }
        for vi in r.viols.iter_mut() {
            vi.sig = vi.sig.clone();
            if let Some(o) = vi.detail.as_object_mut() {
                o.insert("profile".into(), json!(other));
            }
        }
        eprintln!(
            "[{} {} {}] cases {} ops {} violating {}",
            prop.id,
            tier.name(),
            other,
            r.cases,
            r.ops,
            r.sig_counts.values().sum::<u64>()
        );
        total.merge(r);
        profiles.push(other.to_string());
    }

    total.normalise();
    let code = finish(&prop, tier, seed, &total, &profiles, t0.elapsed().as_secs_f64());
    std::process::exit(code);
}

fn report_to_json_full(rep: &Report) -> Value {
    let mut v = report_to_json(rep);
    v["planned"] = json!(rep.planned);
    v["spaces"] = json!(rep.spaces);
    v
}

/// Re-run every reported (non-crash) violation once in a fresh context: the same signature must
/// come back, otherwise the harness has captured some nondeterminism and nothing it says is trusted.
fn confirm(prop: &Prop, total: &mut Report) {
    total.normalise();
    let mut machinery = false;
    for v in total.viols.iter_mut() {
        let Some(sp) = prop.spaces.iter().find(|s| s.name == v.space) else { continue };
        if v.sig.contains("|crash|") {
            // cannot re-run in-process: ask the case function to describe the case only
            let mut ctx = Ctx::new(&sp.name);
            ctx.idx = v.idx;
            ctx.want_sample = true;
            ctx.describe_only = true;
            let _ = guarded(|| (sp.f)(v.idx, &mut ctx));
            if let Some(o) = v.detail.as_object_mut() {
                o.entry("profile").or_insert(json!(profile_name()));
                if let Some(s) = ctx.samples.first() {
                    o.insert("case".into(), s.clone());
                }
            }
            continue;
        }
        if sp.isolate {
            // cases of isolated spaces may corrupt memory: never re-run them inside the driver;
            // describe them only (they are deterministic functions of the index and are re-run by
            // `--replay` in a process of their own)
            let mut ctx = Ctx::new(&sp.name);
            ctx.idx = v.idx;
            ctx.want_sample = true;
            ctx.describe_only = true;
            let _ = guarded(|| (sp.f)(v.idx, &mut ctx));
            if let Some(o) = v.detail.as_object_mut() {
                o.entry("profile").or_insert(json!(profile_name()));
                if let Some(s) = ctx.samples.first() {
                    o.entry("case").or_insert(s.clone());
                }
            }
            continue;
        }
        let mut ctx = Ctx::new(&sp.name);
        ctx.idx = v.idx;
        ctx.want_sample = true;
        let _ = guarded(|| (sp.f)(v.idx, &mut ctx));
        let again = ctx.sig_counts.contains_key(&v.sig) || v.sig.contains("|panic|");
        if !again {
            eprintln!(
                "MACHINERY-ERROR violation not reproducible: space {} idx {} sig {}",
                v.space, v.idx, v.sig
            );
            machinery = true;
        }
        if let Some(o) = v.detail.as_object_mut() {
            o.entry("profile").or_insert(json!(profile_name()));
            if let Some(s) = ctx.samples.first() {
                o.entry("case").or_insert(s.clone());
            }
        }
    }
    if machinery {
        std::process::exit(2);
    }
}

fn load_known() -> Vec<Value> {
    let path = std::env::var("VERIF_KNOWN").unwrap_or_else(|_| "/verif/known_findings.jsonl".into());
    let mut out = vec![];
    if let Ok(text) = std::fs::read_to_string(&path) {
        for l in text.lines() {
            let l = l.trim();
            if l.is_empty() || l.starts_with('#') {
                continue;
            }
            if let Ok(v) = serde_json::from_str::<Value>(l) {
                out.push(v);
            }
        }
    }
    out
}

fn finish(prop: &Prop, tier: Tier, seed: u64, total: &Report, profiles: &[String], wall: f64) -> i32 {
    let known = load_known();
    let known_sigs: BTreeMap<String, String> = known
        .iter()
        .filter(|k| k["status"] == "known" && k["property"] == prop.id)
        .map(|k| {
            (
                k["signature"].as_str().unwrap_or("").to_string(),
                k["what"].as_str().unwrap_or("").to_string(),
            )
        })
        .collect();

    let root = std::env::var("VERIF_ROOT").unwrap_or_else(|_| "/verif".into());
    let rdir = format!("{}/replays/{}", root, prop.id);
    let mut unknown: BTreeSet<String> = BTreeSet::new();
    let mut known_hit: BTreeSet<String> = BTreeSet::new();
    for sig in total.sig_counts.keys() {
        if known_sigs.contains_key(sig) {
            known_hit.insert(sig.clone());
        } else {
            unknown.insert(sig.clone());
        }
    }
    for sig in &known_hit {
        println!("KNOWN-FINDING: property={} {} [{}; {} cases]", prop.id, known_sigs[sig], sig, total.sig_counts[sig]);
    }
    let mut viol_samples = vec![];
    if !unknown.is_empty() {
        std::fs::create_dir_all(&rdir).ok();
    }
    let mut n = 0;
    let many = unknown.len() > 12;
    for sig in &unknown {
        if n >= 24 {
            break; // every signature is in the evidence; replay files for the first ones only
        }
        for v in total.viols.iter().filter(|v| &v.sig == sig).take(if many { 1 } else { 2 }) {
            n += 1;
            let path = format!("{}/{}_{}.json", rdir, tier.name(), n);
            let rec = json!({
                "property": prop.id, "tier": tier.name(), "seed": seed, "space": v.space, "index": v.idx,
                "signature": v.sig, "count_with_this_signature": total.sig_counts[sig], "detail": v.detail,
                "replay": format!("/verif/run.sh {} --replay {}", prop.id, path),
            });
            std::fs::write(&path, serde_json::to_string_pretty(&rec).unwrap()).ok();
            println!("VIOLATION property={} replay={}", prop.id, path);
            viol_samples.push(rec);
        }
    }
    let vacuous = total.outcomes.len() < prop.min_outcomes;
    if vacuous {
        eprintln!(
            "MACHINERY-ERROR vacuous exploration: {} distinct outcomes < {}",
            total.outcomes.len(),
            prop.min_outcomes
        );
    }
    let machinery_errors = total.notes.get("machinery_errors").copied().unwrap_or(0);

    let mut samples = total.samples.clone();
    samples.truncate(9);
    samples.extend(viol_samples.iter().take(6).cloned());
    if samples.is_empty() {
        samples.push(json!("no sample recorded"));
    }
    let exhaustive = !total.cap_hit && total.cases == total.planned;
    let ev = json!({
        "property_id": prop.id,
        "tier": tier.name(),
        "seed": seed,
        "level": "model_checking",
        "coverage": {
            "states": total.cases.max(total.nontrivial),
            "transitions": total.ops.max(total.cases),
            "traces_validated_against_impl": total.traces,
            "samples": samples,
            "exhaustive": exhaustive,
            "evaluations": total.ops.max(total.cases),
            "distinct_nontrivial": total.nontrivial.max(total.classes.len() as u64),
            "index_cases": total.cases,
            "rule": prop.rule,
            "planned_cases": total.planned,
            "cap_hit": total.cap_hit,
            "distinct_control_flow_classes": total.classes.len(),
            "distinct_outcomes": total.outcomes.len(),
            "profiles": profiles,
            "bounds": prop.bounds,
            "spaces": total.spaces,
            "notes": total.notes,
            "crashes_isolated": total.crashes,
            "violating_cases_by_signature": total.sig_counts,
            "known_findings_hit": known_hit.iter().collect::<Vec<_>>(),
        },
        "assumptions": prop.assumptions,
        "wall_s": wall,
        "violations": unknown.len(),
    });
    let edir = format!("{}/evidence", root);
    std::fs::create_dir_all(&edir).ok();
    let epath = format!("{}/{}.json", edir, prop.id);
    std::fs::write(&epath, serde_json::to_string_pretty(&ev).unwrap()).expect("write evidence");
    eprintln!(
        "[{} {}] states {} transitions {} traces {} classes {} outcomes {} exhaustive {} violations {} known {} wall {:.1}s",
        prop.id,
        tier.name(),
        total.cases,
        total.ops,
        total.traces,
        total.classes.len(),
        total.outcomes.len(),
        exhaustive,
        unknown.len(),
        known_hit.len(),
        wall
    );
    if vacuous || machinery_errors > 0 {
        return 2;
    }
    if unknown.is_empty() {
        0
    } else {
        1
    }
}

fn do_replay(prop: &Prop, path: &str) -> i32 {
    let text = match std::fs::read_to_string(path) {
        Ok(t) => t,
        Err(e) => {
            eprintln!("MACHINERY-ERROR cannot read {}: {}", path, e);
            return 2;
        }
    };
    let v: Value = serde_json::from_str(&text).expect("replay json");
    let space = v["space"].as_str().unwrap_or("");
    let idx = v["index"].as_u64().unwrap_or(0);
    if let (Some(f), true) = (prop.replay_fn.as_ref(), prop.spaces.iter().all(|s| s.name != space)) {
        println!("replay {} engine-space={} profile={}", prop.id, space, profile_name());
        let r = guarded(|| f(&v["detail"]));
        return match r {
            Err((loc, msg)) => {
                println!("PANIC at {}: {}", loc, msg);
                println!("VIOLATION property={} replay={}", prop.id, path);
                1
            }
            Ok(vs) if vs.is_empty() => {
                println!("no violation on this tree");
                0
            }
            Ok(vs) => {
                for (sig, d) in vs {
                    println!("signature: {}", sig);
                    println!("detail: {}", d);
                }
                println!("VIOLATION property={} replay={}", prop.id, path);
                1
            }
        };
    }
    let Some(sp) = prop.spaces.iter().find(|s| s.name == space) else {
        eprintln!("MACHINERY-ERROR no space {} in {} (was the file recorded with the other tier?)", space, prop.id);
        return 2;
    };
    println!("replay {} space={} index={} profile={}", prop.id, space, idx, profile_name());
    {
        // describe first (the case itself may crash the process)
        let mut dctx = Ctx::new(&sp.name);
        dctx.idx = idx;
        dctx.want_sample = true;
        dctx.describe_only = true;
        let _ = guarded(|| (sp.f)(idx, &mut dctx));
        for s in &dctx.samples {
            println!("case: {}", s);
        }
        use std::io::Write;
        std::io::stdout().flush().ok();
    }
    let mut ctx = Ctx::new(&sp.name);
    ctx.idx = idx;
    ctx.want_sample = true;
    let r = guarded(|| (sp.f)(idx, &mut ctx));
    if let Err((loc, msg)) = r {
        println!("PANIC at {}: {}", loc, msg);
        println!("VIOLATION property={} replay={}", prop.id, path);
        return 1;
    }
    if ctx.viols.is_empty() {
        println!("no violation on this tree");
        return 0;
    }
    for vi in &ctx.viols {
        println!("signature: {}", vi.sig);
        println!("detail: {}", vi.detail);
    }
    println!("VIOLATION property={} replay={}", prop.id, path);
    1
}
