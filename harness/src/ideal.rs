//! The ideal separable resampler (oracle of C01), written from the documentation, in f64 with
//! interval arithmetic so that undefined weights (sample centre on a kernel discontinuity) and
//! the per-pass rounding licence are carried as intervals rather than asserted.
use crate::alg::*;
use crate::px::*;

#[derive(Clone, Debug)]
pub struct Alt {
    pub start: usize,
    pub w: Vec<f64>,
}

/// Per output sample: the alternative normalised weight windows (1 when nothing is ambiguous).
pub type Wins = Vec<Vec<Alt>>;

pub const AMBIG_EPS: f64 = 9.094947017729282e-13; // 2^-40

/// Ideal weights: centre c_j = left + (j+½)·len/n_out; kernel scale fs = max(scale,1) when
/// adaptive, else 1; weight of source pixel x is K((x+½−c_j)/fs); pixels outside [0,n_in) do not
/// exist; weights are normalised to Σ = 1. Returns None if a window has more than 4 ambiguous
/// taps or a zero weight sum (no ideal defined).
pub fn ideal_windows(n_in: u32, crop: Crop1, n_out: u32, f: F, adaptive: bool) -> Option<Wins> {
    let (k, support) = kernel(f);
    let disc = discontinuities(f);
    let scale = crop.len / n_out as f64;
    let fs = if adaptive { scale.max(1.0) } else { 1.0 };
    let radius = support * fs;
    let mut wins = Vec::with_capacity(n_out as usize);
    for j in 0..n_out {
        let c = crop.start + (j as f64 + 0.5) * scale;
        let lo = ((c - radius).floor() - 1.0).max(0.0) as i64;
        let hi = ((c + radius).ceil() + 1.0).min(n_in as f64) as i64;
        // taps: (x, value or ambiguous pair)
        let mut xs: Vec<i64> = vec![];
        let mut vals: Vec<(f64, Option<f64>)> = vec![];
        for x in lo..hi {
            let t = (x as f64 + 0.5 - c) / fs;
            let mut amb = None;
            for &d in disc {
                if (t - d).abs() <= AMBIG_EPS * (1.0 + t.abs()) * 4.0 {
                    let delta = 1e-7;
                    amb = Some((k(d - delta), k(d + delta)));
                }
            }
            match amb {
                Some((a, b)) if a != b => {
                    xs.push(x);
                    vals.push((a, Some(b)));
                }
                _ => {
                    let v = k(t);
                    xs.push(x);
                    vals.push((v, None));
                }
            }
        }
        let amb_idx: Vec<usize> = vals.iter().enumerate().filter(|(_, v)| v.1.is_some()).map(|(i, _)| i).collect();
        if amb_idx.len() > 4 {
            return None;
        }
        let mut alts = vec![];
        let mut undefined = false;
        for mask in 0..(1u32 << amb_idx.len()) {
            let mut w: Vec<f64> = vals.iter().map(|v| v.0).collect();
            for (bit, &i) in amb_idx.iter().enumerate() {
                if mask >> bit & 1 == 1 {
                    w[i] = vals[i].1.unwrap();
                }
            }
            let sum: f64 = w.iter().sum();
            if !sum.is_finite() {
                continue;
            }
            if sum == 0.0 {
                // every contributing tap is ambiguous: under this reading of the discontinuity the
                // sample is 0/0 — the ideal is undefined, anything is accepted for this sample
                if !amb_idx.is_empty() {
                    undefined = true;
                }
                continue;
            }
            for v in w.iter_mut() {
                *v /= sum;
            }
            // not trimmed: taps whose ideal weight is exactly 0 at the edge of the support are
            // ±1e-16 noise in any other evaluation order, and the tolerance must see their |x|
            alts.push(Alt { start: xs[0] as usize, w });
        }
        if undefined {
            alts.push(Alt { start: 0, w: vec![] });
        }
        if alts.is_empty() {
            return None;
        }
        wins.push(alts);
    }
    Some(wins)
}

pub fn is_ambiguous(w: &Wins) -> bool {
    w.iter().any(|a| a.len() > 1)
}

#[derive(Clone, Copy, Debug)]
pub struct Iv {
    pub lo: f64,
    pub hi: f64,
}

/// Rounding licence of one pass for a component kind; `precision` is the implementation's
/// fixed-point precision for this pass (from the hook), `sum_abs_x` = Σ|x_i| over the window,
/// `sum_abs_wx` = Σ|w_i x_i|.
pub fn pass_tolerance(ck: CK, precision: u32, sum_abs_x: f64, sum_abs_wx: f64) -> f64 {
    match ck {
        CK::U8 | CK::U16 => 0.5 + sum_abs_x * (0.5f64).powi(precision as i32 + 1) + 1e-6,
        // the absolute term: a weight is evaluated with an absolute error of ~1e-16 even when it is
        // small (polynomial cancellation), and i32 samples are up to 2^31
        CK::I32 => 0.5 + 1e-6 + sum_abs_wx * (0.5f64).powi(46) + sum_abs_x * (0.5f64).powi(48),
        CK::F32 => 4.0 * (0.5f64).powi(24) * sum_abs_wx + (0.5f64).powi(48) * sum_abs_x + 1e-44,
    }
}

/// Apply one ideal pass to a line of intervals. Returns the interval of each output sample,
/// widened by the pass tolerance and clamped to the component range.
pub fn pass_line(src: &[Iv], wins: &Wins, ck: CK, precision: u32) -> Vec<Iv> {
    let mut out = Vec::with_capacity(wins.len());
    for alts in wins {
        let mut lo = f64::INFINITY;
        let mut hi = f64::NEG_INFINITY;
        for a in alts {
            if a.w.is_empty() {
                lo = f64::NEG_INFINITY;
                hi = f64::INFINITY;
                continue;
            }
            let mut l = 0.0;
            let mut h = 0.0;
            let mut sax = 0.0;
            let mut sawx = 0.0;
            for (i, &w) in a.w.iter().enumerate() {
                let x = src[a.start + i];
                if w >= 0.0 {
                    l += w * x.lo;
                    h += w * x.hi;
                } else {
                    l += w * x.hi;
                    h += w * x.lo;
                }
                let ax = x.lo.abs().max(x.hi.abs());
                sax += ax;
                sawx += w.abs() * ax;
            }
            let tol = pass_tolerance(ck, precision, sax, sawx);
            lo = lo.min(l - tol);
            hi = hi.max(h + tol);
        }
        let (cmin, cmax) = match ck {
            CK::F32 => (f64::NEG_INFINITY, f64::INFINITY),
            _ => (ck.min(), ck.max()),
        };
        // clamping to the component range between and after passes
        let lo = lo.clamp(cmin, cmax);
        let hi = hi.clamp(cmin, cmax);
        out.push(Iv { lo, hi });
    }
    out
}

/// Nearest-neighbour source index for destination index j (C11 formula), with an ambiguity flag
/// when the exact coordinate is within floating-point noise of an integer.
pub fn nearest_index(n_in: u32, crop: Crop1, n_out: u32, j: u32) -> (u32, bool) {
    let scale = crop.len / n_out as f64;
    let c = crop.start + (j as f64 + 0.5) * scale;
    let extent = (n_in as f64).max(1.0);
    let tol = (n_out as f64 + 4.0) * (0.5f64).powi(51) * extent;
    let fl = c.floor();
    let amb = (c - fl) <= tol || (fl + 1.0 - c) <= tol;
    let idx = (fl as i64).clamp(0, n_in as i64 - 1) as u32;
    (idx, amb)
}

/// The two candidate indices when ambiguous.
pub fn nearest_candidates(n_in: u32, crop: Crop1, n_out: u32, j: u32) -> Vec<u32> {
    let scale = crop.len / n_out as f64;
    let c = crop.start + (j as f64 + 0.5) * scale;
    let (idx, amb) = nearest_index(n_in, crop, n_out, j);
    if !amb {
        return vec![idx];
    }
    let r = c.round() as i64;
    let mut v = vec![];
    for cand in [r - 1, r] {
        if cand >= 0 && cand < n_in as i64 {
            v.push(cand as u32);
        }
    }
    if v.is_empty() {
        v.push(idx);
    }
    v
}

/// Documented two-step SuperSampling: intermediate size, or None if done in one step.
pub fn supersampling_tmp_size(cw: f64, chh: f64, dw: u32, dh: u32, m: u8) -> Option<(u32, u32)> {
    let ws = cw / dw as f64;
    let hs = chh / dh as f64;
    let factor = ws.min(hs) / m as f64;
    if factor > 1.2 {
        Some(((cw / factor).round() as u32, (chh / factor).round() as u32))
    } else {
        None
    }
}
