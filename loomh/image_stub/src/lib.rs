//! The part of `image::DynamicImage` that `src/images/image_crate.rs` matches on.
use std::ops::{Deref, DerefMut};

pub struct Buf<T> {
    pub width: u32,
    pub height: u32,
    pub data: Vec<T>,
}
impl<T> Deref for Buf<T> {
    type Target = [T];
    fn deref(&self) -> &[T] {
        &self.data
    }
}
impl<T> DerefMut for Buf<T> {
    fn deref_mut(&mut self) -> &mut [T] {
        &mut self.data
    }
}

#[non_exhaustive]
pub enum DynamicImage {
    ImageLuma8(Buf<u8>),
    ImageLumaA8(Buf<u8>),
    ImageRgb8(Buf<u8>),
    ImageRgba8(Buf<u8>),
    ImageLuma16(Buf<u16>),
    ImageLumaA16(Buf<u16>),
    ImageRgb16(Buf<u16>),
    ImageRgba16(Buf<u16>),
    ImageRgb32F(Buf<f32>),
    ImageRgba32F(Buf<f32>),
}

impl DynamicImage {
    fn dims(&self) -> (u32, u32) {
        match self {
            DynamicImage::ImageLuma8(b) | DynamicImage::ImageLumaA8(b) | DynamicImage::ImageRgb8(b) | DynamicImage::ImageRgba8(b) => (b.width, b.height),
            DynamicImage::ImageLuma16(b) | DynamicImage::ImageLumaA16(b) | DynamicImage::ImageRgb16(b) | DynamicImage::ImageRgba16(b) => (b.width, b.height),
            DynamicImage::ImageRgb32F(b) | DynamicImage::ImageRgba32F(b) => (b.width, b.height),
        }
    }
    pub fn width(&self) -> u32 {
        self.dims().0
    }
    pub fn height(&self) -> u32 {
        self.dims().1
    }
    pub fn as_bytes(&self) -> &[u8] {
        fn bytes<T>(v: &[T]) -> &[u8] {
            unsafe { std::slice::from_raw_parts(v.as_ptr() as *const u8, std::mem::size_of_val(v)) }
        }
        match self {
            DynamicImage::ImageLuma8(b) | DynamicImage::ImageLumaA8(b) | DynamicImage::ImageRgb8(b) | DynamicImage::ImageRgba8(b) => bytes(&b.data),
            DynamicImage::ImageLuma16(b) | DynamicImage::ImageLumaA16(b) | DynamicImage::ImageRgb16(b) | DynamicImage::ImageRgba16(b) => bytes(&b.data),
            DynamicImage::ImageRgb32F(b) | DynamicImage::ImageRgba32F(b) => bytes(&b.data),
        }
    }
}
