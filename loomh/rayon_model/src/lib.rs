//! A model of the rayon surface fast_image_resize touches:
//! `current_num_threads()`, `Vec::into_par_iter()`, `.zip()`, `.for_each()`.
//!
//! Semantics modelled: every item of a `for_each` is executed exactly once, by any worker, in any
//! order, concurrently with the others — a superset of what work stealing can do at item
//! granularity. Two execution modes, chosen by the harness through `config`:
//!
//! * `Mode::Loom`  — W workers (the caller plus W-1 `loom` threads) claim items with a loom atomic;
//!   the loom scheduler explores the interleavings and its vector clocks check every access the
//!   harness routes through `loom::cell::UnsafeCell`.
//! * `Mode::Serial` — the items run one at a time on the calling thread in an order selected by
//!   the harness (permutation index), with a hook before/after every band so that the harness can
//!   snapshot the destination and obtain exact per-band write sets.
use std::sync::atomic::{AtomicUsize, Ordering};
use std::sync::Mutex;

pub mod config {
    use super::*;

    /// value reported by `current_num_threads()`
    pub static NUM_THREADS: AtomicUsize = AtomicUsize::new(1);
    /// 0 = serial, 1 = loom
    pub static MODE: AtomicUsize = AtomicUsize::new(0);
    /// number of workers in loom mode (caller included)
    pub static WORKERS: AtomicUsize = AtomicUsize::new(2);
    /// serial mode: index of the band order (see `order_for`)
    pub static ORDER: AtomicUsize = AtomicUsize::new(0);
    /// loom mode: add a scheduling point inside every band (finer interleavings)
    pub static YIELD_IN_BANDS: AtomicUsize = AtomicUsize::new(0);

    /// number of `for_each` regions executed since the last `reset()`
    pub static REGIONS: AtomicUsize = AtomicUsize::new(0);
    /// per region: how many times each band ran
    pub static EXECUTED: Mutex<Vec<Vec<usize>>> = Mutex::new(Vec::new());

    pub type BandHook = Box<dyn FnMut(usize, usize, usize, bool) + Send>;
    /// serial mode: called as hook(region, band, bands, after)
    pub static BAND_HOOK: Mutex<Option<BandHook>> = Mutex::new(None);

    pub fn reset() {
        REGIONS.store(0, Ordering::SeqCst);
        EXECUTED.lock().unwrap().clear();
    }

    /// Number of distinct orders offered for `n` bands: all permutations up to 5 bands, else 3.
    pub fn orders_for(n: usize) -> usize {
        match n {
            0 | 1 => 1,
            2 => 2,
            3 => 6,
            4 => 24,
            5 => 120,
            _ => 3,
        }
    }

    /// The `k`-th order of `n` bands.
    pub fn order_for(n: usize, k: usize) -> Vec<usize> {
        if n <= 5 {
            // k-th permutation (factorial number system)
            let mut items: Vec<usize> = (0..n).collect();
            let mut out = Vec::with_capacity(n);
            let mut k = k % orders_for(n).max(1);
            let mut f: usize = (1..=n).product();
            for i in (1..=n).rev() {
                f /= i;
                let idx = k / f;
                k %= f;
                out.push(items.remove(idx));
            }
            out
        } else {
            match k % 3 {
                0 => (0..n).collect(),
                1 => (0..n).rev().collect(),
                _ => (0..n).filter(|i| i % 2 == 1).chain((0..n).filter(|i| i % 2 == 0)).collect(),
            }
        }
    }
}

pub fn current_num_threads() -> usize {
    config::NUM_THREADS.load(Ordering::SeqCst)
}

pub mod iter {
    use super::*;

    pub trait ParallelIterator: Sized {
        type Item: Send;
        fn into_items(self) -> Vec<Self::Item>;

        fn for_each<F>(self, f: F)
        where
            F: Fn(Self::Item) + Sync + Send,
        {
            run_region(self.into_items(), f)
        }
    }

    pub trait IndexedParallelIterator: ParallelIterator {
        fn zip<Z>(self, other: Z) -> Zip<Self::Item, <Z::Iter as ParallelIterator>::Item>
        where
            Z: IntoParallelIterator,
            Z::Iter: IndexedParallelIterator,
        {
            let a = self.into_items();
            let b = other.into_par_iter().into_items();
            Zip { items: a.into_iter().zip(b).collect() }
        }
    }

    pub trait IntoParallelIterator {
        type Iter: ParallelIterator<Item = Self::Item>;
        type Item: Send;
        fn into_par_iter(self) -> Self::Iter;
    }

    pub struct VecIter<T: Send> {
        items: Vec<T>,
    }
    impl<T: Send> ParallelIterator for VecIter<T> {
        type Item = T;
        fn into_items(self) -> Vec<T> {
            self.items
        }
    }
    impl<T: Send> IndexedParallelIterator for VecIter<T> {}

    impl<T: Send> IntoParallelIterator for Vec<T> {
        type Iter = VecIter<T>;
        type Item = T;
        fn into_par_iter(self) -> VecIter<T> {
            VecIter { items: self }
        }
    }
    impl<T: Send> IntoParallelIterator for VecIter<T> {
        type Iter = VecIter<T>;
        type Item = T;
        fn into_par_iter(self) -> VecIter<T> {
            self
        }
    }

    pub struct Zip<A: Send, B: Send> {
        items: Vec<(A, B)>,
    }
    impl<A: Send, B: Send> ParallelIterator for Zip<A, B> {
        type Item = (A, B);
        fn into_items(self) -> Vec<(A, B)> {
            self.items
        }
    }
    impl<A: Send, B: Send> IndexedParallelIterator for Zip<A, B> {}
    impl<A: Send, B: Send> IntoParallelIterator for Zip<A, B> {
        type Iter = Zip<A, B>;
        type Item = (A, B);
        fn into_par_iter(self) -> Self {
            self
        }
    }

    fn run_region<T: Send, F: Fn(T) + Sync + Send>(items: Vec<T>, f: F) {
        let n = items.len();
        let region = config::REGIONS.fetch_add(1, Ordering::SeqCst);
        config::EXECUTED.lock().unwrap().push(vec![0; n]);
        let mark = |band: usize| {
            config::EXECUTED.lock().unwrap()[region][band] += 1;
        };
        if config::MODE.load(Ordering::SeqCst) == 0 {
            // ---- serial: one band at a time in the selected order
            let order = config::order_for(n, config::ORDER.load(Ordering::SeqCst));
            let mut slots: Vec<Option<T>> = items.into_iter().map(Some).collect();
            for band in order {
                if let Some(h) = config::BAND_HOOK.lock().unwrap().as_mut() {
                    h(region, band, n, false);
                }
                let item = slots[band].take().expect("band executed twice");
                f(item);
                mark(band);
                if let Some(h) = config::BAND_HOOK.lock().unwrap().as_mut() {
                    h(region, band, n, true);
                }
            }
            return;
        }
        // ---- loom: W workers claim bands with a loom atomic
        let workers = config::WORKERS.load(Ordering::SeqCst).max(1).min(n.max(1));
        let yield_in = config::YIELD_IN_BANDS.load(Ordering::SeqCst) != 0;
        let slots: Vec<Mutex<Option<T>>> = items.into_iter().map(|i| Mutex::new(Some(i))).collect();
        let next = loom::sync::atomic::AtomicUsize::new(0);
        let worker = || loop {
            let i = next.fetch_add(1, loom::sync::atomic::Ordering::SeqCst);
            if i >= n {
                break;
            }
            let item = slots[i].lock().unwrap().take().expect("band claimed twice");
            if yield_in {
                loom::thread::yield_now();
            }
            f(item);
            mark(i);
        };
        // loom::thread::spawn wants 'static: smuggle the closure as an address and join before return
        let wref: &(dyn Fn() + Sync) = &worker;
        let addr: [usize; 2] = unsafe { std::mem::transmute(wref) };
        let handles: Vec<_> = (1..workers)
            .map(|_| {
                loom::thread::spawn(move || {
                    let w: &(dyn Fn() + Sync) = unsafe { std::mem::transmute(addr) };
                    w();
                })
            })
            .collect();
        worker();
        for h in handles {
            h.join().expect("worker panicked");
        }
    }
}

pub mod prelude {
    pub use crate::iter::{IndexedParallelIterator, IntoParallelIterator, ParallelIterator};
}
