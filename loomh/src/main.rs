//! C08 — with the rayon feature the result is independent of thread count and schedule.
//!
//! This binary is built in its own workspace where the crate `rayon` is replaced (by
//! `[patch.crates-io]`) with `rayon_model`: the library's real band code runs on loom threads
//! (controlled-scheduler exploration, part 1) or in explicit serial band orders with per-band
//! write-set analysis (part 2). Part 3 enumerates the band-count arithmetic directly.
//!
//! usage: c08loom <quick|thorough>            driver: prints one JSON report line
//!        c08loom --one <spec-json>           one loom body (child of the driver)
#[path = "../../harness/src/explore.rs"]
#[allow(dead_code)]
mod explore;

use explore::*;
use fast_image_resize as fir;
use fir::pixels::U8;
use fir::{CpuExtensions, ImageView};
use rayon::config as rc;
use serde_json::{json, Value};
use std::sync::atomic::{AtomicUsize, Ordering};
use std::sync::{Arc, Mutex};

mod common;
use common::*;

/// Sequential reference: pool size 1 means the library never splits.
fn sequential(c: &Case, sentinel: u8, kind: &DstKind) -> Vec<u8> {
    rc::MODE.store(0, Ordering::SeqCst);
    rc::NUM_THREADS.store(1, Ordering::SeqCst);
    rc::reset();
    let out = run_body_pt(c, &kind.reference(), sentinel, None);
    assert_eq!(rc::REGIONS.load(Ordering::SeqCst), 0, "pool size 1 must not split");
    out
}

/// Which tracking mode is sound for the region that writes the destination of this body?
fn track_mode_for(c: &Case) -> Track {
    match c.body {
        // the destination is written by a vertical pass (column split): rows are shared
        Body::Vert => Track::RowsShared,
        // non-u8 two-pass: horizontal first, the *vertical* pass writes the destination
        Body::TwoPass if c.pt != Pt::U8 && c.pt != Pt::U8x4 => Track::RowsShared,
        // alpha-aware resize: the destination is written by a pass and then divided in place by
        // rows; for non-u8 types the writing pass is column-split
        Body::AlphaResize | Body::AlphaResizeCrop if c.pt == Pt::U16x2 => Track::RowsShared,
        _ => Track::RowsExclusive,
    }
}

// ---------------------------------------------------------------------------------------------
// Part 1: one loom body (runs in a child process of the driver)
// ---------------------------------------------------------------------------------------------

fn loom_one(spec: &Value) -> Value {
    let c = case_from(spec);
    let n = spec["n"].as_u64().unwrap() as usize;
    let w = spec["workers"].as_u64().unwrap() as usize;
    let pb = spec["preemptions"].as_u64().map(|v| v as usize);
    let tracked = spec["tracked"].as_bool().unwrap();
    let row_points = spec["row_points"].as_bool().unwrap_or(false);
    let cropped = spec["cropped"].as_bool().unwrap_or(false);
    let expected = sequential(&c, 0x5A, &if cropped { DstKind::CroppedTyped } else { DstKind::Typed });
    let executions = Arc::new(AtomicUsize::new(0));
    let mismatches = Arc::new(Mutex::new(Vec::<String>::new()));
    let bands_seen = Arc::new(AtomicUsize::new(0));
    rc::MODE.store(1, Ordering::SeqCst);
    rc::NUM_THREADS.store(n, Ordering::SeqCst);
    rc::WORKERS.store(w, Ordering::SeqCst);
    rc::YIELD_IN_BANDS.store(spec["yield_in_bands"].as_bool().unwrap_or(false) as usize, Ordering::SeqCst);
    let mut b = loom::model::Builder::new();
    b.preemption_bound = pb;
    b.max_branches = 200_000;
    b.max_duration = Some(std::time::Duration::from_secs(spec["max_secs"].as_u64().unwrap_or(120)));
    let (e2, m2, bs2, exp2) = (executions.clone(), mismatches.clone(), bands_seen.clone(), expected.clone());
    let mode = if tracked { track_mode_for(&c) } else { Track::Off };
    let t0 = std::time::Instant::now();
    b.check(move || {
        rc::reset();
        let kind = match (tracked, cropped) {
            (true, false) => DstKind::Tracked(mode, row_points),
            (true, true) => DstKind::CroppedTracked(mode, row_points),
            (false, false) => DstKind::Typed,
            (false, true) => DstKind::CroppedTyped,
        };
        let out = run_body_pt(&c, &kind, 0x5A, None);
        e2.fetch_add(1, Ordering::SeqCst);
        let ex = rc::EXECUTED.lock().unwrap().clone();
        let bands: usize = ex.iter().map(|r| r.len()).sum();
        bs2.store(bands, Ordering::SeqCst);
        if ex.iter().any(|r| r.iter().any(|n| *n != 1)) {
            let mut m = m2.lock().unwrap();
            if m.len() < 3 {
                m.push(format!("a band did not run exactly once: {:?}", ex));
            }
        }
        if out != exp2 {
            let i = out.iter().zip(exp2.iter()).position(|(a, b)| a != b).unwrap_or(0);
            let mut m = m2.lock().unwrap();
            if m.len() < 3 {
                m.push(format!("destination differs from the sequential run at byte {} ({} vs {})", i, out[i], exp2[i]));
            }
        }
    });
    let regions = rc::EXECUTED.lock().unwrap().iter().map(|r| r.len()).collect::<Vec<_>>();
    json!({"executions": executions.load(Ordering::SeqCst), "mismatches": *mismatches.lock().unwrap(), "bands_per_region": regions, "bands": bands_seen.load(Ordering::SeqCst), "wall_s": t0.elapsed().as_secs_f64()})
}

fn case_to(c: &Case) -> Value {
    json!({"body": BODIES.iter().position(|b| *b == c.body).unwrap(), "pt": PTS_EXT.iter().position(|p| *p == c.pt).unwrap(), "be": c.be, "dw": c.dw, "dh": c.dh,
           "body_name": format!("{:?}", c.body), "pt_name": format!("{:?}", c.pt), "src": format!("{:?}", src_size(c))})
}
fn case_from(v: &Value) -> Case {
    Case { body: BODIES[v["body"].as_u64().unwrap() as usize], pt: PTS_EXT[v["pt"].as_u64().unwrap() as usize], be: v["be"].as_u64().unwrap() as usize, dw: v["dw"].as_u64().unwrap() as u32, dh: v["dh"].as_u64().unwrap() as u32 }
}

fn loom_specs(thorough: bool) -> Vec<Value> {
    let mut v = vec![];
    let simd = if CpuExtensions::Avx2.is_supported() { 2 } else if CpuExtensions::Sse4_1.is_supported() { 1 } else { 0 };
    // (body, dw, dh): shapes for which the real band arithmetic yields several bands
    let shapes: Vec<(Body, u32, u32)> = vec![
        (Body::Horiz, 16, 64),
        (Body::Horiz, 1, 40),
        (Body::Vert, 64, 16),
        (Body::Vert, 40, 1),
        (Body::TwoPass, 33, 33),
        (Body::TwoPass, 16, 64),
        (Body::MulAlpha, 16, 64),
        (Body::DivAlphaInplace, 16, 64),
        (Body::DivAlphaInplace, 3, 40),
        (Body::AlphaResize, 33, 33),
        (Body::Nearest, 16, 64),
        (Body::HorizCrop, 16, 64),
        (Body::HorizCrop, 17, 64),
        (Body::AlphaResizeCrop, 33, 33),
    ];
    for (body, dw, dh) in shapes {
        for &pt in PTS.iter() {
            for be in [0usize, simd] {
                let c = Case { body, pt, be, dw, dh };
                if !applicable(&c) || (be != 0 && pt == Pt::F32 && body == Body::Nearest) {
                    continue;
                }
                let regions = match body {
                    Body::TwoPass => 2,
                    Body::AlphaResize | Body::AlphaResizeCrop => 4,
                    // premultiply, horizontal pass, divide
                    Body::HorizCrop if has_alpha(pt) => 3,
                    _ => 1,
                };
                // loom allows 5 threads per execution in total: (W-1)*regions <= 4
                let wmax = 1 + 4 / regions;
                let mut combos: Vec<(usize, usize)> = vec![];
                for n in [2usize, 3, 4, 7, 32] {
                    for w in 2..=wmax {
                        if w <= n {
                            combos.push((n, w));
                        }
                    }
                }
                if !thorough {
                    // quick: a pairwise sub-selection
                    combos.retain(|(n, w)| matches!((n, w), (2, 2) | (3, 3) | (4, 2) | (7, 3) | (32, 2) | (3, 2)));
                }
                for (n, w) in combos {
                    for tracked in [true, false] {
                        if !thorough && !tracked && (n, w) != (3, 2) && (n, w) != (3, 3) {
                            continue;
                        }
                        for cropped in [false, true] {
                            // cropped destinations: one (n, w) combination per body in the quick tier
                            if cropped && !thorough && (n, w) != (3, 2) {
                                continue;
                            }
                            let mut s = case_to(&c);
                            s["n"] = json!(n);
                            s["workers"] = json!(w);
                            s["preemptions"] = json!(if thorough { 3 } else { 2 });
                            s["tracked"] = json!(tracked);
                            s["cropped"] = json!(cropped);
                            s["max_secs"] = json!(if thorough { 240 } else { 30 });
                            v.push(s);
                        }
                    }
                }
            }
        }
    }
    // row-granularity interleavings: tiny images, yield at every handed-out row
    for (body, dw, dh, pt) in [(Body::DivAlphaInplace, 40u32, 40u32, Pt::U8x4), (Body::Horiz, 33, 33, Pt::U8), (Body::MulAlpha, 40, 40, Pt::U16x2)] {
        let c = Case { body, pt, be: 0, dw, dh };
        let mut s = case_to(&c);
        s["n"] = json!(2);
        s["workers"] = json!(2);
        s["preemptions"] = json!(if thorough { 3 } else { 2 });
        s["tracked"] = json!(true);
        s["row_points"] = json!(true);
        s["max_secs"] = json!(if thorough { 240 } else { 20 });
        v.push(s);
    }
    v
}

// ---------------------------------------------------------------------------------------------
// Part 2: thread counts x shapes x serial band orders with per-band write sets
// ---------------------------------------------------------------------------------------------

struct WriteSets {
    snapshots: Vec<(usize, usize, bool, Vec<u8>)>,
}

/// Returns (violations, number of regions, bands)
fn serial_case(c: &Case, n: usize, variant: usize, ctx: &mut Ctx) {
    let tracked_default_split = variant % 2 == 1;
    let cropped = variant / 2 == 1;
    let kind = || match (tracked_default_split, cropped) {
        (false, false) => DstKind::Typed,
        (true, false) => DstKind::Tracked(Track::Off, false),
        (false, true) => DstKind::CroppedTyped,
        (true, true) => DstKind::CroppedTracked(Track::Off, false),
    };
    let expected = match guarded(|| sequential(c, 0x5A, &kind())) {
        Ok(e) => e,
        Err((loc, msg)) => {
            ctx.ops += 1;
            ctx.violation(format!("C08|panic|{}|{}", loc, panic_class(&msg)), || json!({"case": case_to(c), "pool_size": 1, "message": msg, "note": "the single-threaded reference run itself panicked"}));
            return;
        }
    };
    rc::MODE.store(0, Ordering::SeqCst);
    rc::NUM_THREADS.store(n, Ordering::SeqCst);
    // find the band structure with the identity order first
    rc::ORDER.store(0, Ordering::SeqCst);
    rc::reset();
    let det = |extra: Value| json!({"case": case_to(c), "pool_size": n, "default_split_path": tracked_default_split, "cropped_destination": cropped, "variant": variant, "more": extra});
    let sig = |what: &str| format!("C08|serial|{:?}|{:?}|{}", c.body, c.pt, what);
    let r = guarded(|| run_body_pt(c, &kind(), 0x5A, None));
    ctx.ops += 1;
    let out = match r {
        Ok(o) => o,
        Err((loc, msg)) => {
            ctx.violation(format!("C08|panic|{}|{}", loc, panic_class(&msg)), || det(json!({"message": msg})));
            return;
        }
    };
    let structure: Vec<usize> = rc::EXECUTED.lock().unwrap().iter().map(|r| r.len()).collect();
    if out != expected {
        ctx.violation(sig("result differs from the single-threaded result"), || det(json!({"bands_per_region": structure})));
    }
    let max_bands = structure.iter().copied().max().unwrap_or(0);
    ctx.class(explore_mix(c.body as u64 * 16 + c.pt as u64, (structure.len() as u64) << 8 | max_bands.min(40) as u64));
    if structure.is_empty() {
        ctx.note("cases the library did not split (single band)", 1);
        return;
    }
    ctx.note("cases split into bands", 1);
    // every order
    let orders = rc::orders_for(max_bands);
    for k in 1..orders {
        rc::ORDER.store(k, Ordering::SeqCst);
        rc::reset();
        match guarded(|| run_body_pt(c, &kind(), 0x5A, None)) {
            Ok(o) => {
                ctx.ops += 1;
                ctx.traces += 1;
                if o != expected {
                    ctx.violation(sig("result depends on the order in which the bands run"), || det(json!({"order": rc::order_for(max_bands, k), "bands_per_region": structure})));
                    break;
                }
                let ex = rc::EXECUTED.lock().unwrap().clone();
                if ex.iter().any(|r| r.iter().any(|n| *n != 1)) {
                    ctx.violation(sig("a band did not run exactly once"), || det(json!({"executed": ex})));
                }
            }
            Err((loc, msg)) => {
                ctx.violation(format!("C08|panic|{}|{}", loc, panic_class(&msg)), || det(json!({"message": msg})));
                break;
            }
        }
    }
    // write sets: snapshot the destination around every band, under two sentinels
    if c.dw as usize * c.dh as usize <= 70000 {
        let ps = psize(c.pt);
        let (bw, bh) = if cropped { (c.dw + CROP_PLACE.0 + CROP_PLACE.2, c.dh + CROP_PLACE.1 + CROP_PLACE.3) } else { (c.dw, c.dh) };
        let npx = bw as usize * bh as usize;
        // written[region][band] = set of pixel indices
        let mut written: Vec<Vec<Vec<bool>>> = structure.iter().map(|b| vec![vec![false; npx]; *b]).collect();
        for sentinel in [0x5Au8, 0xA5] {
            rc::ORDER.store(0, Ordering::SeqCst);
            rc::reset();
            let ws = Arc::new(Mutex::new(WriteSets { snapshots: vec![] }));
            let addr = Arc::new(Mutex::new((0usize, 0usize)));
            let (ws2, addr2) = (ws.clone(), addr.clone());
            *rc::BAND_HOOK.lock().unwrap() = Some(Box::new(move |region, band, _bands, after| {
                let (p, l) = *addr2.lock().unwrap();
                if p != 0 {
                    let snap = unsafe { std::slice::from_raw_parts(p as *const u8, l) }.to_vec();
                    ws2.lock().unwrap().snapshots.push((region, band, after, snap));
                }
            }));
            let a3 = addr.clone();
            let expose = move |p: *const u8, l: usize| {
                *a3.lock().unwrap() = (p as usize, l);
            };
            let r = guarded(|| run_body_pt(c, &kind(), sentinel, Some(&expose)));
            *rc::BAND_HOOK.lock().unwrap() = None;
            ctx.ops += 1;
            let Ok(out_s) = r else { return };
            // the result must not depend on what the destination held before (every pixel assigned)
            // expected bytes under this sentinel: the view's pixels from the reference run, the
            // parent's margins (cropped destinations) hold the sentinel of this run
            let mut exp_s = expected.clone();
            if cropped && sentinel != 0x5A {
                let other = match guarded(|| sequential(c, sentinel, &kind())) {
                    Ok(o) => o,
                    Err(_) => return,
                };
                let (pl, pt, _, _) = CROP_PLACE;
                for y in 0..bh as usize {
                    for x in 0..bw as usize {
                        let inside = x >= pl as usize && x < (pl + c.dw) as usize && y >= pt as usize && y < (pt + c.dh) as usize;
                        if !inside {
                            let o = (y * bw as usize + x) * ps;
                            exp_s[o..o + ps].copy_from_slice(&other[o..o + ps]);
                        }
                    }
                }
                rc::MODE.store(0, Ordering::SeqCst);
                rc::NUM_THREADS.store(n, Ordering::SeqCst);
                rc::ORDER.store(0, Ordering::SeqCst);
            }
            if out_s != exp_s {
                ctx.violation(sig("a destination pixel keeps its previous content, or a pixel outside the destination changed"), || det(json!({"sentinel": sentinel, "bands_per_region": structure})));
                return;
            }
            let w = ws.lock().unwrap();
            let mut before: Option<&Vec<u8>> = None;
            for (region, band, after, snap) in w.snapshots.iter() {
                if !*after {
                    before = Some(snap);
                } else if let Some(b) = before {
                    for px in 0..npx {
                        if b[px * ps..(px + 1) * ps] != snap[px * ps..(px + 1) * ps] {
                            written[*region][*band][px] = true;
                        }
                    }
                }
            }
        }
        let mut union_all = vec![false; npx];
        for (ri, region) in written.iter().enumerate() {
            let mut owner = vec![usize::MAX; npx];
            for (bi, set) in region.iter().enumerate() {
                for px in 0..npx {
                    if set[px] {
                        if owner[px] != usize::MAX {
                            let (x, y) = (px % bw as usize, px / bw as usize);
                            ctx.violation(sig("two bands of one region wrote the same destination pixel"), || det(json!({"region": ri, "bands": [owner[px], bi], "pixel": [x, y], "bands_per_region": structure})));
                            return;
                        }
                        owner[px] = bi;
                        union_all[px] = true;
                    }
                }
            }
        }
        ctx.traces += 1;
        let _ = union_all;
    }
    ctx.outcome(fnv1(&out));
    ctx.nontrivial += 1;
}

fn fnv1(b: &[u8]) -> u64 {
    let mut h = 0xcbf29ce484222325u64;
    for &x in b {
        h ^= x as u64;
        h = h.wrapping_mul(0x100000001b3);
    }
    h
}
fn explore_mix(a: u64, b: u64) -> u64 {
    let mut h = a ^ b.wrapping_mul(0x9E3779B97F4A7C15);
    h ^= h >> 29;
    h = h.wrapping_mul(0xBF58476D1CE4E5B9);
    h ^ (h >> 32)
}

/// Fake view with arbitrary dimensions and no data: to drive the default split implementations
/// with the band counts of huge images.
struct Huge(u32, u32);
unsafe impl ImageView for Huge {
    type Pixel = U8;
    fn width(&self) -> u32 {
        self.0
    }
    fn height(&self) -> u32 {
        self.1
    }
    fn iter_rows(&self, _start_row: u32) -> impl Iterator<Item = &[U8]> {
        std::iter::empty()
    }
}

fn main() {
    let args: Vec<String> = std::env::args().collect();
    install_quiet_panic_hook();
    if args.len() >= 3 && args[1] == "--one" {
        // restore the default hook: loom reports races by panicking with a useful message
        let _ = std::panic::take_hook();
        let spec: Value = serde_json::from_str(&args[2]).expect("spec");
        let out = loom_one(&spec);
        println!("{}", out);
        return;
    }
    if args.len() >= 3 && args[1] == "--case" {
        // replay of one serial case: {"case": {...}, "pool_size": n, "default_split_path": bool}
        let d: Value = serde_json::from_str(&args[2]).expect("case json");
        let c = case_from(&d["case"]);
        let mut ctx = Ctx::new("serial");
        serial_case(&c, d["pool_size"].as_u64().unwrap_or(2) as usize, d["variant"].as_u64().unwrap_or(0) as usize, &mut ctx);
        let out: Vec<Value> = ctx.viols.iter().map(|v| json!({"sig": v.sig, "detail": v.detail})).collect();
        println!("{}", json!({"violations": out}));
        return;
    }
    let thorough = args.get(1).map(|s| s == "thorough").unwrap_or(false);
    let profile = if cfg!(debug_assertions) { "dbg" } else { "release" };
    let only_part: Option<u32> = std::env::var("C08_PART").ok().and_then(|s| s.parse().ok());
    let mut total = Report::default();
    let t_all = std::time::Instant::now();

    // ---- part 1: loom
    if only_part.map_or(true, |p| p == 1) && profile == "release" {
        let specs = loom_specs(thorough);
        let exe = std::env::current_exe().unwrap();
        let next = AtomicUsize::new(0);
        let results: Mutex<Vec<(usize, Result<Value, String>)>> = Mutex::new(vec![]);
        std::thread::scope(|s| {
            for _ in 0..std::thread::available_parallelism().map(|n| n.get()).unwrap_or(8) {
                s.spawn(|| loop {
                    let i = next.fetch_add(1, Ordering::SeqCst);
                    if i >= specs.len() {
                        break;
                    }
                    let out = std::process::Command::new(&exe).arg("--one").arg(specs[i].to_string()).env("RUST_BACKTRACE", "0").output().expect("spawn loom child");
                    let r = if out.status.success() {
                        let text = String::from_utf8_lossy(&out.stdout);
                        match text.lines().rev().find(|l| l.starts_with('{')).map(|l| serde_json::from_str::<Value>(l)) {
                            Some(Ok(v)) => Ok(v),
                            _ => Err(format!("no report from the loom child: {}", text)),
                        }
                    } else {
                        let err = String::from_utf8_lossy(&out.stderr);
                        let tail: Vec<&str> = err.lines().filter(|l| !l.trim().is_empty()).collect();
                        Err(tail.iter().rev().take(6).rev().cloned().collect::<Vec<_>>().join(" | "))
                    };
                    results.lock().unwrap().push((i, r));
                });
            }
        });
        let mut res = results.into_inner().unwrap();
        res.sort_by_key(|r| r.0);
        let mut execs = 0u64;
        let mut sample_done = 0;
        for (i, r) in res {
            let spec = &specs[i];
            total.cases += 1;
            total.planned += 1;
            total.nontrivial += 1;
            match r {
                Ok(v) => {
                    let e = v["executions"].as_u64().unwrap_or(0);
                    execs += e;
                    total.ops += e;
                    total.outcomes.insert(explore_mix(i as u64, e));
                    total.classes.insert(explore_mix(spec["body"].as_u64().unwrap() * 64 + spec["pt"].as_u64().unwrap() * 8 + spec["be"].as_u64().unwrap(), spec["n"].as_u64().unwrap() * 16 + spec["workers"].as_u64().unwrap() * 2 + spec["tracked"].as_bool().unwrap() as u64));
                    if v["bands"].as_u64().unwrap_or(0) < 2 {
                        *total.notes.entry("loom bodies that did not split into >= 2 bands".into()).or_insert(0) += 1;
                    }
                    if let Some(m) = v["mismatches"].as_array() {
                        if !m.is_empty() {
                            let sig = format!("C08|loom|{}|{}|{}", spec["body_name"].as_str().unwrap(), spec["pt_name"].as_str().unwrap(), if m[0].as_str().unwrap_or("").contains("exactly once") { "a band did not run exactly once" } else { "destination differs from the sequential run in some interleaving" });
                            *total.sig_counts.entry(sig.clone()).or_insert(0) += 1;
                            total.viols.push(Viol { space: "loom".into(), idx: i as u64, sig, detail: json!({"spec": spec, "report": v, "profile": profile}) });
                        }
                    }
                    if sample_done < 3 {
                        total.samples.push(json!({"loom_body": spec, "executions": e, "bands_per_region": v["bands_per_region"]}));
                        sample_done += 1;
                    }
                }
                Err(msg) => {
                    // loom reports unsynchronised accesses / deadlocks by panicking inside the model
                    let class = if msg.contains("Causality violation") || msg.contains("oncurrent") { "unsynchronised access to a destination row (loom causality violation)" } else if msg.contains("deadlock") { "deadlock" } else { "model panicked" };
                    let sig = format!("C08|loom|{}|{}|{}", spec["body_name"].as_str().unwrap(), spec["pt_name"].as_str().unwrap(), class);
                    *total.sig_counts.entry(sig.clone()).or_insert(0) += 1;
                    total.viols.push(Viol { space: "loom".into(), idx: i as u64, sig, detail: json!({"spec": spec, "message": msg, "profile": profile}) });
                }
            }
        }
        total.spaces.push(json!({"space": "part 1: loom exploration of the real band code", "profile": profile, "bodies": specs.len(), "loom_executions": execs, "wall_s": t_all.elapsed().as_secs_f64()}));
        eprintln!("[C08 loom] bodies {} executions {} violations {} {:.1}s", specs.len(), execs, total.sig_counts.len(), t_all.elapsed().as_secs_f64());
    }

    // ---- part 2: pool sizes x shapes x serial band orders + write sets
    // (the rayon model keeps its configuration in process-wide statics, so one process explores
    //  serially; the driver fans the case list out over child processes)
    let shard: Option<(usize, usize)> = std::env::var("C08_SHARD").ok().and_then(|s| {
        let mut it = s.split(':');
        Some((it.next()?.parse().ok()?, it.next()?.parse().ok()?))
    });
    if only_part.map_or(true, |p| p == 2) && shard.is_none() {
        let t = std::time::Instant::now();
        let k = std::thread::available_parallelism().map(|n| n.get()).unwrap_or(8);
        let exe = std::env::current_exe().unwrap();
        let tier = if thorough { "thorough" } else { "quick" };
        let outs: Vec<_> = std::thread::scope(|s| {
            let hs: Vec<_> = (0..k)
                .map(|i| {
                    let exe = exe.clone();
                    s.spawn(move || std::process::Command::new(&exe).arg(tier).env("C08_PART", "2").env("C08_SHARD", format!("{}:{}", i, k)).stderr(std::process::Stdio::null()).output().expect("spawn shard"))
                })
                .collect();
            hs.into_iter().map(|h| h.join().unwrap()).collect()
        });
        let mut rep = Report::default();
        for o in outs {
            let text = String::from_utf8_lossy(&o.stdout);
            match text.lines().rev().find(|l| l.starts_with('{')).map(serde_json::from_str::<Value>) {
                Some(Ok(v)) if o.status.success() => {
                    let mut r = report_from_json(&v);
                    r.planned = v["planned"].as_u64().unwrap_or(0);
                    rep.merge(r);
                }
                _ => {
                    // a shard that dies (signal / abort) while running the library's band code is a
                    // crash verdict, not a machinery failure
                    let sig = format!("C08|crash|a serial shard died while running band code: {:?}", o.status);
                    *rep.sig_counts.entry(sig.clone()).or_insert(0) += 1;
                    rep.viols.push(Viol { space: "serial".into(), idx: 0, sig, detail: json!({"status": format!("{:?}", o.status), "profile": profile}) });
                }
            }
        }
        rep.spaces.push(json!({"space": "part 2: pool sizes x shapes x serial band orders + per-band write sets", "profile": profile, "cases": rep.cases, "shards": k, "wall_s": t.elapsed().as_secs_f64()}));
        eprintln!("[C08 serial {}] cases {} runs {} violations {} {:.1}s", profile, rep.cases, rep.ops, rep.sig_counts.len(), t.elapsed().as_secs_f64());
        total.merge(rep);
    }
    if only_part.map_or(true, |p| p == 2) && shard.is_some() {
        let t = std::time::Instant::now();
        let ns: Vec<usize> = if thorough { (1..=33).chain([64, 1000]).collect() } else { vec![1, 2, 3, 4, 5, 7, 8, 16, 31, 32, 33, 64, 1000] };
        let mut shapes: Vec<(u32, u32)> = vec![];
        let hs: Vec<u32> = if thorough { vec![1, 2, 31, 32, 33, 40, 47, 64, 65, 100, 128, 255, 256, 257] } else { vec![1, 32, 33, 47, 64, 100, 257] };
        let ws: Vec<u32> = if thorough { vec![1, 2, 3, 16, 31, 32, 33, 64, 100] } else { vec![1, 3, 33, 64] };
        for &h in hs.iter() {
            for &w in ws.iter() {
                shapes.push((w, h));
                if w != h {
                    shapes.push((h, w));
                }
            }
        }
        shapes.sort();
        shapes.dedup();
        // very tall / very wide images (the u32 area arithmetic): one dimension tiny
        for big in [4095u32, 4096, 4097, 65535, 65536, 65537] {
            shapes.push((1, big));
            shapes.push((big, 1));
            shapes.push((2, big));
        }
        let simd = if CpuExtensions::Avx2.is_supported() { 2 } else { 0 };
        let mut cases: Vec<(Case, usize, usize)> = vec![];
        for &(dw, dh) in shapes.iter() {
            for &body in BODIES.iter() {
                for (pi, &pt) in PTS_EXT.iter().enumerate() {
                    let c = Case { body, pt, be: if (dw + dh) as usize % 2 == pi % 2 { simd } else { 0 }, dw, dh };
                    if !applicable(&c) {
                        continue;
                    }
                    let huge = dw.max(dh) > 1000;
                    if huge && !matches!((body, pt), (Body::Horiz, Pt::U8) | (Body::Vert, Pt::U8) | (Body::MulAlpha, Pt::U8x4) | (Body::DivAlphaInplace, Pt::U16x2) | (Body::TwoPass, Pt::F32) | (Body::Nearest, Pt::U8) | (Body::HorizCrop, Pt::U8x4)) {
                        continue;
                    }
                    for &n in ns.iter() {
                        if huge && !matches!(n, 1 | 2 | 3 | 32 | 1000) {
                            continue;
                        }
                        cases.push((c, n, (n + dw as usize + dh as usize) % 4));
                    }
                }
            }
        }
        // the rayon model keeps its configuration in process-wide statics: serial exploration is
        // single-threaded by construction
        let mut ctx = Ctx::new("serial");
        let (si, sk) = shard.unwrap();
        let mut mine = 0u64;
        for (i, (c, n, variant)) in cases.iter().enumerate() {
            if i % sk != si {
                continue;
            }
            mine += 1;
            ctx.idx = i as u64;
            serial_case(c, *n, *variant, &mut ctx);
            if i == 0 || i == cases.len() / 2 || i == cases.len() - 1 {
                ctx.samples.push(json!({"serial_case": case_to(c), "pool_size": n, "destination_variant": variant}));
            }
        }
        let mut rep = Report::default();
        rep.absorb_ctx(ctx);
        rep.cases = mine;
        rep.planned = mine;
        let _ = t;
        for v in rep.viols.iter_mut() {
            if let Some(o) = v.detail.as_object_mut() {
                o.insert("profile".into(), json!(profile));
            }
        }
        total.merge(rep);
    }

    // ---- part 3: the band-count functions on every size incl. 2^k +- 1
    if only_part.map_or(true, |p| p == 3) {
        let t = std::time::Instant::now();
        let mut vals: Vec<u32> = (0..=300).collect();
        for k in 0..=32u32 {
            let b = 1u64 << k;
            for d in [-1i64, 0, 1] {
                let x = b as i64 + d;
                if x >= 0 && x <= u32::MAX as i64 {
                    vals.push(x as u32);
                }
            }
        }
        vals.sort();
        vals.dedup();
        let mut ctx = Ctx::new("band counts");
        let ns = [2u32, 3, 7, 32, 1000];
        for &w in vals.iter() {
            for &h in vals.iter() {
                for horiz in [true, false] {
                    let r = guarded(|| if horiz { fir::verif::max_parts_h(w, h) } else { fir::verif::max_parts_v(w, h) });
                    ctx.ops += 1;
                    ctx.nontrivial += 1;
                    match r {
                        Err((loc, msg)) => ctx.violation(format!("C08|band count|panic|{}|{}", loc, panic_class(&msg)), || json!({"width": w, "height": h, "function": if horiz { "calculate_max_h_parts_number" } else { "calculate_max_v_parts_number" }, "message": msg, "profile": profile})),
                        Ok(parts) => {
                            ctx.outcome(explore_mix(parts as u64, horiz as u64));
                            // feed the count into the default split implementation of a view of that size
                            if w > 0 && h > 0 && (w > 300 || h > 300 || (w % 37 == 0 && h % 41 == 0)) {
                                for n in ns {
                                    let np = n.min(parts);
                                    if np <= 1 {
                                        continue;
                                    }
                                    let v = Huge(w, h);
                                    let ext = if horiz { h } else { w };
                                    let rr = guarded(|| {
                                        let (e, p) = (std::num::NonZeroU32::new(ext).unwrap(), std::num::NonZeroU32::new(np).unwrap());
                                        if horiz {
                                            v.split_by_height(0, e, p).map(|ps| ps.iter().map(|q| q.height() as u64).collect::<Vec<_>>())
                                        } else {
                                            v.split_by_width(0, e, p).map(|ps| ps.iter().map(|q| q.width() as u64).collect::<Vec<_>>())
                                        }
                                    });
                                    ctx.ops += 1;
                                    match rr {
                                        Err((loc, msg)) => ctx.violation(format!("C08|band split|panic|{}|{}", loc, panic_class(&msg)), || json!({"width": w, "height": h, "parts": np, "message": msg})),
                                        Ok(None) => {}
                                        Ok(Some(sizes)) => {
                                            let sum: u64 = sizes.iter().sum();
                                            let (mn, mx) = (sizes.iter().min().unwrap(), sizes.iter().max().unwrap());
                                            if sizes.len() != np as usize || sum != ext as u64 || mx - mn > 1 {
                                                ctx.violation("C08|band split|bands do not tile the image", || json!({"width": w, "height": h, "parts": np, "sizes": sizes}));
                                            }
                                        }
                                    }
                                }
                            }
                        }
                    }
                }
            }
        }
        ctx.samples.push(json!({"band_count_sizes": vals.len(), "example": [65536, 1]}));
        let mut rep = Report::default();
        rep.absorb_ctx(ctx);
        rep.cases = (vals.len() * vals.len() * 2) as u64;
        rep.planned = rep.cases;
        rep.spaces.push(json!({"space": "part 3: band-count functions on (0..300 ∪ 2^k±1)^2", "profile": profile, "cases": rep.cases, "wall_s": t.elapsed().as_secs_f64()}));
        eprintln!("[C08 band counts {}] cases {} violations {} {:.1}s", profile, rep.cases, rep.sig_counts.len(), t.elapsed().as_secs_f64());
        for v in rep.viols.iter_mut() {
            if let Some(o) = v.detail.as_object_mut() {
                o.insert("profile".into(), json!(profile));
            }
        }
        total.merge(rep);
    }
    total.normalise();
    let mut v = report_to_json(&total);
    v["planned"] = json!(total.planned);
    v["spaces"] = json!(total.spaces);
    println!("{}", v);
}
