//! Shared between the loom workspace (rayon replaced by the model) and the real-rayon workspace:
//! the harness view, the case alphabet and the bodies that call the library.
#![allow(dead_code)]
use fast_image_resize as fir;
use fir::images::{TypedCroppedImage, TypedCroppedImageMut, TypedImage, TypedImageRef};
use fir::pixels::{F32, U16x2, U8x2, U8x3, U8x4, U8};
use fir::{CpuExtensions, FilterType, ImageView, ImageViewMut, MulDiv, PixelTrait, ResizeAlg, ResizeOptions, Resizer};

// ---------------------------------------------------------------------------------------------
// Tracked image: the public ImageView/ImageViewMut traits over a buffer whose rows are routed
// through loom::cell::UnsafeCell, so loom's vector clocks see every row access.
// ---------------------------------------------------------------------------------------------

#[derive(Clone, Copy, PartialEq, Debug)]
pub enum Track {
    /// no loom cells (serial mode / outside a model)
    Off,
    /// a handed-out mutable row is a write access (row-split regions)
    RowsExclusive,
    /// a handed-out mutable row is only a read access of the row cell (column-split regions hand
    /// the same full row to every band; disjointness of columns comes from the write-set analysis)
    RowsShared,
}

#[cfg(feature = "with_loom")]
pub mod cellimp {
    pub type Cell = loom::cell::UnsafeCell<()>;
    pub fn new() -> Cell {
        loom::cell::UnsafeCell::new(())
    }
    pub fn read(c: &Cell) {
        c.with(|_| ())
    }
    pub fn write(c: &Cell) {
        c.with_mut(|_| ())
    }
    pub fn yield_now() {
        loom::thread::yield_now()
    }
}
#[cfg(not(feature = "with_loom"))]
pub mod cellimp {
    pub struct Cell;
    pub fn new() -> Cell {
        Cell
    }
    pub fn read(_: &Cell) {}
    pub fn write(_: &Cell) {}
    pub fn yield_now() {}
}

pub struct Tracked<P: PixelTrait> {
    w: u32,
    h: u32,
    pub data: Vec<P>,
    cells: Vec<cellimp::Cell>,
    mode: Track,
    row_points: bool,
}

unsafe impl<P: PixelTrait> Sync for Tracked<P> {}
unsafe impl<P: PixelTrait> Send for Tracked<P> {}

impl<P: PixelTrait> Tracked<P> {
    pub fn new(w: u32, h: u32, fill: P, mode: Track, row_points: bool) -> Self {
        let cells = if mode == Track::Off { vec![] } else { (0..h).map(|_| cellimp::new()).collect() };
        Tracked { w, h, data: vec![fill; w as usize * h as usize], cells, mode, row_points }
    }
    pub fn bytes(&self) -> &[u8] {
        unsafe { std::slice::from_raw_parts(self.data.as_ptr() as *const u8, std::mem::size_of_val(&self.data[..])) }
    }
}

unsafe impl<P: PixelTrait> ImageView for Tracked<P> {
    type Pixel = P;
    fn width(&self) -> u32 {
        self.w
    }
    fn height(&self) -> u32 {
        self.h
    }
    fn iter_rows(&self, start_row: u32) -> impl Iterator<Item = &[P]> {
        let w = self.w as usize;
        (start_row.min(self.h)..self.h).map(move |r| {
            if self.mode != Track::Off {
                cellimp::read(&self.cells[r as usize]);
            }
            &self.data[r as usize * w..(r as usize + 1) * w]
        })
    }
}

unsafe impl<P: PixelTrait> ImageViewMut for Tracked<P> {
    fn iter_rows_mut(&mut self, start_row: u32) -> impl Iterator<Item = &mut [P]> {
        let w = self.w as usize;
        let h = self.h;
        let ptr = self.data.as_mut_ptr();
        let mode = self.mode;
        let rp = self.row_points;
        let cells: &Vec<cellimp::Cell> = &self.cells;
        (start_row.min(h)..h).map(move |r| {
            match mode {
                Track::Off => {}
                Track::RowsExclusive => cellimp::write(&cells[r as usize]),
                Track::RowsShared => cellimp::read(&cells[r as usize]),
            }
            if rp {
                cellimp::yield_now();
            }
            unsafe { std::slice::from_raw_parts_mut(ptr.add(r as usize * w), w) }
        })
    }
}

// ---------------------------------------------------------------------------------------------
// Bodies
// ---------------------------------------------------------------------------------------------

#[derive(Clone, Copy, Debug, PartialEq)]
pub enum Body {
    Horiz,
    Vert,
    TwoPass,
    MulAlpha,
    DivAlphaInplace,
    AlphaResize,
    Nearest,
    /// width-only resize of a crop box with top > 0 (source row offset), alpha handling on
    HorizCrop,
    /// alpha-aware two-pass resize of a fractional crop box
    AlphaResizeCrop,
    /// width-only 4x down-scale with Lanczos3 (24 taps per window: the long-kernel branches of the
    /// SIMD kernels, whose one-row and four-row variants are separate code) - the rows a band
    /// finishes with the one-row kernel depend on the band heights
    HorizLong,
}
pub const BODIES: [Body; 10] = [Body::Horiz, Body::Vert, Body::TwoPass, Body::MulAlpha, Body::DivAlphaInplace, Body::AlphaResize, Body::Nearest, Body::HorizCrop, Body::AlphaResizeCrop, Body::HorizLong];

#[derive(Clone, Copy, Debug, PartialEq)]
pub enum Pt {
    U8,
    U8x4,
    U16x2,
    F32,
    U8x2,
    U8x3,
}
/// the types of the loom exploration
pub const PTS: [Pt; 4] = [Pt::U8, Pt::U8x4, Pt::U16x2, Pt::F32];
/// the types of the serial band orders and of the real-rayon engines (a superset, same indices)
pub const PTS_EXT: [Pt; 6] = [Pt::U8, Pt::U8x4, Pt::U16x2, Pt::F32, Pt::U8x2, Pt::U8x3];

pub fn be_of(i: usize) -> CpuExtensions {
    match i {
        0 => CpuExtensions::None,
        1 => CpuExtensions::Sse4_1,
        _ => CpuExtensions::Avx2,
    }
}

#[derive(Clone, Copy, Debug)]
pub struct Case {
    pub body: Body,
    pub pt: Pt,
    pub be: usize,
    /// destination size (w,h); the source size is derived per body
    pub dw: u32,
    pub dh: u32,
}

pub fn src_size(c: &Case) -> (u32, u32) {
    let up = |v: u32| (v + v / 4 + 1).min(70000);
    match c.body {
        Body::Horiz => (up(c.dw), c.dh),
        Body::Vert => (c.dw, up(c.dh)),
        Body::TwoPass | Body::AlphaResize | Body::Nearest => (up(c.dw), up(c.dh)),
        Body::HorizCrop => (up(c.dw), (c.dh + 8).min(70000)),
        Body::HorizLong => ((4 * c.dw + 3).min(70000), c.dh),
        Body::AlphaResizeCrop => (up(c.dw) + 2, up(c.dh) + 4),
        Body::MulAlpha | Body::DivAlphaInplace => (c.dw, c.dh),
    }
}

pub fn has_alpha(pt: Pt) -> bool {
    matches!(pt, Pt::U8x4 | Pt::U16x2 | Pt::U8x2)
}

pub fn applicable(c: &Case) -> bool {
    match c.body {
        Body::MulAlpha | Body::DivAlphaInplace | Body::AlphaResize | Body::AlphaResizeCrop => has_alpha(c.pt),
        _ => true,
    }
}

pub fn lcg(seed: &mut u64) -> u64 {
    *seed = seed.wrapping_mul(6364136223846793005).wrapping_add(1442695040888963407);
    let mut x = *seed;
    x ^= x >> 33;
    x = x.wrapping_mul(0xff51afd7ed558ccd);
    x ^ (x >> 33)
}

pub trait Px: PixelTrait {
    fn gen(seed: &mut u64) -> Self;
    fn sentinel(b: u8) -> Self;
}
impl Px for U8 {
    fn gen(s: &mut u64) -> Self {
        U8::new(lcg(s) as u8)
    }
    fn sentinel(b: u8) -> Self {
        U8::new(b)
    }
}
impl Px for U8x4 {
    fn gen(s: &mut u64) -> Self {
        let r = lcg(s);
        // alpha from a small alphabet incl. 0 and 255
        let a = [0u8, 255, 128, 1, 200, 255][(r >> 40) as usize % 6];
        U8x4::new([r as u8, (r >> 8) as u8, (r >> 16) as u8, a])
    }
    fn sentinel(b: u8) -> Self {
        U8x4::new([b; 4])
    }
}
impl Px for U8x2 {
    fn gen(s: &mut u64) -> Self {
        let r = lcg(s);
        let a = [0u8, 255, 128, 1, 200, 255][(r >> 40) as usize % 6];
        U8x2::new([r as u8, a])
    }
    fn sentinel(b: u8) -> Self {
        U8x2::new([b; 2])
    }
}
impl Px for U8x3 {
    fn gen(s: &mut u64) -> Self {
        let r = lcg(s);
        U8x3::new([r as u8, (r >> 8) as u8, (r >> 16) as u8])
    }
    fn sentinel(b: u8) -> Self {
        U8x3::new([b; 3])
    }
}
impl Px for U16x2 {
    fn gen(s: &mut u64) -> Self {
        let r = lcg(s);
        let a = [0u16, 65535, 32768, 1, 40000, 65535][(r >> 40) as usize % 6];
        U16x2::new([r as u16, a])
    }
    fn sentinel(b: u8) -> Self {
        U16x2::new([u16::from_le_bytes([b, b]); 2])
    }
}
impl Px for F32 {
    fn gen(s: &mut u64) -> Self {
        F32::new((lcg(s) >> 40) as f32 / (1u64 << 24) as f32)
    }
    fn sentinel(b: u8) -> Self {
        F32::new(f32::from_le_bytes([b, b, b, 0x3f]))
    }
}

pub fn options(c: &Case) -> ResizeOptions {
    let o = ResizeOptions::new();
    let body = c.body;
    let (sw, sh) = src_size(c);
    match body {
        Body::HorizCrop => o.resize_alg(ResizeAlg::Convolution(FilterType::Bilinear)).use_alpha(true).crop(0.0, 5.0, sw as f64, c.dh as f64),
        Body::AlphaResizeCrop => o.resize_alg(ResizeAlg::Convolution(FilterType::CatmullRom)).use_alpha(true).crop(1.0, 3.0, sw as f64 - 2.0, sh as f64 - 4.0),
        Body::Horiz | Body::Vert => o.resize_alg(ResizeAlg::Convolution(FilterType::Bilinear)).use_alpha(false),
        Body::HorizLong => o.resize_alg(ResizeAlg::Convolution(FilterType::Lanczos3)).use_alpha(false),
        Body::TwoPass => o.resize_alg(ResizeAlg::Convolution(FilterType::Lanczos3)).use_alpha(false),
        Body::AlphaResize => o.resize_alg(ResizeAlg::Convolution(FilterType::CatmullRom)).use_alpha(true),
        Body::Nearest => o.resize_alg(ResizeAlg::Nearest),
        _ => o,
    }
}

/// Destination abstraction for a body run.
pub enum DstKind {
    /// plain TypedImage: slice-splitting specialisations
    Typed,
    /// harness view: the trait's default split path (UnsafeImageMut aliasing), loom-tracked or not
    Tracked(Track, bool),
    /// mutable cropped view (left != top, different margins) of a plain TypedImage
    CroppedTyped,
    /// mutable cropped view of the harness view
    CroppedTracked(Track, bool),
}

impl DstKind {
    /// the untracked kind with the same byte layout (for the sequential reference)
    pub fn reference(&self) -> DstKind {
        match self {
            DstKind::Typed | DstKind::Tracked(..) => DstKind::Typed,
            _ => DstKind::CroppedTyped,
        }
    }
    pub fn is_cropped(&self) -> bool {
        matches!(self, DstKind::CroppedTyped | DstKind::CroppedTracked(..))
    }
}

/// Source container override: 0 = alternate borrowed/owned with the destination width (default),
/// 1 = TypedImageRef, 2 = owned TypedImage, 3 = cropped view of a larger TypedImageRef,
/// 4 = cropped view of a larger owned TypedImage
pub static SRC_KIND: std::sync::atomic::AtomicUsize = std::sync::atomic::AtomicUsize::new(0);
/// placement of a cropped source inside its parent: (left, top, right margin, bottom margin)
pub const SRC_PLACE: (u32, u32, u32, u32) = (2, 3, 1, 2);

/// placement of a cropped destination inside its parent: (left, top, right margin, bottom margin)
pub const CROP_PLACE: (u32, u32, u32, u32) = (3, 1, 2, 4);

/// Run one body. Returns the bytes of the whole destination buffer (for cropped destinations the
/// whole parent, so that writes outside the view are visible too).
pub fn run_body<P: Px>(c: &Case, dst_kind: &DstKind, sentinel: u8, expose: Option<&(dyn Fn(*const u8, usize) + Sync)>) -> Vec<u8> {
    let (sw, sh) = src_size(c);
    let mut seed = 0xC08u64 ^ ((c.dw as u64) << 32) ^ ((c.dh as u64) << 8) ^ c.body as u64;
    let src_px: Vec<P> = (0..sw as usize * sh as usize).map(|_| P::gen(&mut seed)).collect();
    // the source is a borrowed reference or an owned TypedImage (different split_by_* implementations),
    // or - when SRC_KIND asks for it - a cropped view of a larger parent of either family
    let sk = match SRC_KIND.load(std::sync::atomic::Ordering::Relaxed) {
        0 => 1 + (c.dw % 2) as usize,
        k => k,
    };
    let src_ref = TypedImageRef::<P>::new(sw, sh, &src_px).unwrap();
    let src_own = TypedImage::<P>::from_pixels(sw, sh, src_px.clone()).unwrap();
    let (ml, mt, mr, mb) = SRC_PLACE;
    let (spw, sph) = (sw + ml + mr, sh + mt + mb);
    let parent_px: Vec<P> = if sk >= 3 {
        let mut v: Vec<P> = (0..spw as usize * sph as usize).map(|_| P::gen(&mut seed)).collect();
        for y in 0..sh as usize {
            for x in 0..sw as usize {
                v[(y + mt as usize) * spw as usize + x + ml as usize] = src_px[y * sw as usize + x];
            }
        }
        v
    } else {
        vec![]
    };
    let (ppw, pph) = if sk >= 3 { (spw, sph) } else { (0, 0) };
    let par_ref = TypedImageRef::<P>::new(ppw, pph, &parent_px).unwrap();
    let par_own = TypedImage::<P>::from_pixels(ppw, pph, parent_px.clone()).unwrap();
    let mut rz = Resizer::new();
    unsafe { rz.set_cpu_extensions(be_of(c.be)) };
    let mut md = MulDiv::new();
    unsafe { md.set_cpu_extensions(be_of(c.be)) };
    let o = options(c);
    let inplace = c.body == Body::DivAlphaInplace;
    let (pl, pt, pr, pb) = CROP_PLACE;
    let (pw, ph) = if dst_kind.is_cropped() { (c.dw + pl + pr, c.dh + pt + pb) } else { (c.dw, c.dh) };
    // initial content of the (parent) buffer: sentinel; for the in-place body the view holds the source
    let mut init: Vec<P> = vec![P::sentinel(sentinel); pw as usize * ph as usize];
    if inplace {
        let (ox, oy) = if dst_kind.is_cropped() { (pl as usize, pt as usize) } else { (0, 0) };
        for y in 0..c.dh as usize {
            for x in 0..c.dw as usize {
                init[(y + oy) * pw as usize + x + ox] = src_px[y * sw as usize + x];
            }
        }
    }
    macro_rules! call {
        ($dst:expr) => {{
            match (c.body, sk) {
                (Body::DivAlphaInplace, _) => md.divide_alpha_inplace_typed($dst).unwrap(),
                (Body::MulAlpha, 1) => md.multiply_alpha_typed(&src_ref, $dst).unwrap(),
                (Body::MulAlpha, 2) => md.multiply_alpha_typed(&src_own, $dst).unwrap(),
                (Body::MulAlpha, 3) => md.multiply_alpha_typed(&TypedCroppedImage::from_ref(&par_ref, ml, mt, sw, sh).unwrap(), $dst).unwrap(),
                (Body::MulAlpha, _) => md.multiply_alpha_typed(&TypedCroppedImage::from_ref(&par_own, ml, mt, sw, sh).unwrap(), $dst).unwrap(),
                (_, 1) => rz.resize_typed(&src_ref, $dst, &o).unwrap(),
                (_, 2) => rz.resize_typed(&src_own, $dst, &o).unwrap(),
                (_, 3) => rz.resize_typed(&TypedCroppedImage::from_ref(&par_ref, ml, mt, sw, sh).unwrap(), $dst, &o).unwrap(),
                (_, _) => rz.resize_typed(&TypedCroppedImage::from_ref(&par_own, ml, mt, sw, sh).unwrap(), $dst, &o).unwrap(),
            }
        }};
    }
    fn as_bytes<P>(p: &[P]) -> &[u8] {
        unsafe { std::slice::from_raw_parts(p.as_ptr() as *const u8, std::mem::size_of_val(p)) }
    }
    match dst_kind {
        DstKind::Typed | DstKind::CroppedTyped => {
            let mut px = init;
            if let Some(e) = expose {
                let b = as_bytes(&px);
                e(b.as_ptr(), b.len());
            }
            {
                let mut parent = TypedImage::<P>::from_pixels_slice(pw, ph, &mut px).unwrap();
                if dst_kind.is_cropped() {
                    let mut view = TypedCroppedImageMut::from_ref(&mut parent, pl, pt, c.dw, c.dh).unwrap();
                    call!(&mut view);
                } else {
                    call!(&mut parent);
                }
            }
            as_bytes(&px).to_vec()
        }
        DstKind::Tracked(mode, rp) | DstKind::CroppedTracked(mode, rp) => {
            let mut t = Tracked::<P>::new(pw, ph, P::sentinel(sentinel), *mode, *rp);
            t.data.copy_from_slice(&init);
            if let Some(e) = expose {
                let b = t.bytes();
                e(b.as_ptr(), b.len());
            }
            if dst_kind.is_cropped() {
                let mut view = TypedCroppedImageMut::from_ref(&mut t, pl, pt, c.dw, c.dh).unwrap();
                call!(&mut view);
            } else {
                call!(&mut t);
            }
            t.bytes().to_vec()
        }
    }
}

pub fn run_body_pt(c: &Case, dst_kind: &DstKind, sentinel: u8, expose: Option<&(dyn Fn(*const u8, usize) + Sync)>) -> Vec<u8> {
    match c.pt {
        Pt::U8 => run_body::<U8>(c, dst_kind, sentinel, expose),
        Pt::U8x4 => run_body::<U8x4>(c, dst_kind, sentinel, expose),
        Pt::U16x2 => run_body::<U16x2>(c, dst_kind, sentinel, expose),
        Pt::U8x2 => run_body::<U8x2>(c, dst_kind, sentinel, expose),
        Pt::U8x3 => run_body::<U8x3>(c, dst_kind, sentinel, expose),
        Pt::F32 => run_body::<F32>(c, dst_kind, sentinel, expose),
    }
}

pub fn psize(pt: Pt) -> usize {
    match pt {
        Pt::U8 => 1,
        Pt::U8x4 | Pt::U16x2 | Pt::F32 => 4,
        Pt::U8x2 => 2,
        Pt::U8x3 => 3,
    }
}

