#!/usr/bin/env python3
"""Regenerates /verif/MANIFEST.json from the table below (kept next to the checks so the two do not drift)."""
import json, sys

CHECKS = {
 # id: (technique, level text, level_note, design_ref)
 "C15": ("bounded-exhaustive enumeration of the real function over all size quadruples up to a bound x centering alphabet, judged by an f64 oracle",
         "Every (src,dst) size quadruple up to the bound, a boundary alphabet up to 65535 and the full centering alphabet are executed on the real CropBox::fit_src_into_dst_size and through Resizer::resize; a pure function of five scalars is decided by enumeration of its (bounded) domain.",
         "Sizes above the bound only through the 14-value boundary alphabet; tolerances 4 ulp (aspect) / 2 ulp (centering).",
         "DESIGN.md §4 C15"),
}

ALL = ["C%02d" % i for i in range(1, 19)]

def main():
    checks = []
    for pid in ALL:
        if pid not in CHECKS:
            continue
        tech, text, note, ref = CHECKS[pid]
        checks.append({
            "property_id": pid,
            "quick_cmd": f"./run.sh {pid} quick",
            "thorough_cmd": f"./run.sh {pid} thorough",
            "evidence_file": f"/verif/evidence/{pid}.json",
            "replay_cmd_template": f"./run.sh {pid} --replay {{path}}",
            "engine": "firmc",
            "level_claimed": {"category": "model_checking", "text": text, "design_ref": ref},
            "level_note": note,
            "technique": tech,
        })
    na = [{"property_id": p, "reason": "check not built yet in this revision (planned, see DESIGN.md §4); not claimed until it runs"} for p in ALL if p not in CHECKS]
    m = {
        "version": 1,
        "setup_cmd": "./run.sh --setup",
        "hooks": {
            "guard": "fir_verif",
            "enable": "RUSTFLAGS=\"--cfg fir_verif\" (set in /verif/*/.cargo/config.toml)",
            "baseline_off_cmd": "cd /repo && cargo test --workspace --no-fail-fast --offline",
            "source_commits": json.load(open("/verif/tools/hook_commits.json")),
            "add_only": True,
        },
        "engines": [
            {"name": "firmc", "path": "/verif/harness", "serves_properties": [c["property_id"] for c in checks if c["property_id"] != "C08"],
             "kind_free_text": "E1 bounded-exhaustive explorer over index spaces (threads or isolated child processes), E2 coefficient model bound to the code by replay, E3 stateright explicit-state search over Resizer histories"},
        ],
        "checks": checks,
        "not_applicable": na,
        "notes": "All checks rebuild from /repo's working tree via cargo path dependency. Exit 2 + MACHINERY-ERROR means the machinery failed, never a verdict. Known findings: /verif/known_findings.jsonl.",
    }
    json.dump(m, open("/verif/MANIFEST.json", "w"), indent=1)
    print("MANIFEST.json:", len(checks), "checks,", len(na), "not applicable")

main()
