#!/usr/bin/env python3
"""Regenerates /verif/MANIFEST.json from the table below (kept next to the checks so the two do not drift)."""
import json, sys

CHECKS = {
 # id: (technique, level text, level_note, design_ref)
 "C01": ("bounded-exhaustive enumeration of resize geometries x filters x algorithms x 13 pixel types x back-ends on the real code, judged against an independent f64 interval model of the documented ideal resampler",
         "Every 1-D geometry (n_in,n_out up to N, 13-member crop alphabet incl. sub-pixel and edge-flush boxes) x 7 filters x {Convolution,Interpolation} is executed for all pixel types, back-ends and both pass orientations on impulse / constant / sign-adversarial / extreme / LCG contents; every 2-D geometry up to M^4 x 35 algorithms incl. SuperSampling; each destination sample must lie in the ideal interval (1/2 + coefficient quantisation per pass, a few f32 ulps for floats), undefined weights at kernel discontinuities only widen the interval. A model space judges the precision itself: for every geometry of the model family every i16/i32 coefficient must be the f64 weight rounded to nearest at scale 2^p and p must be maximal for the coefficient word (caps 21/45).",
         "Sizes bounded (N=12/32, M=4/7, long kernels up to 4097 taps in one dimension); contents are the stated finite generator list; the quantisation term uses the precision the implementation reports.",
         "DESIGN.md §4 C01"),
 "C02": ("bounded-exhaustive differential enumeration: every SIMD back-end vs the portable one on the same case, plus conformance of the portable integer kernels with the fixed-point coefficient model (tables read through the hook)",
         "All 1-D geometries up to the bound x 11 filters (incl. custom kernels that force u8 precision 13) x both orientations x 13 types, line counts 1..13/1..70 and long kernels: the portable result must equal clip((2^(p-1)+Σk·x)>>p) bit for bit and SSE4.1/AVX2 must equal the portable result (ints byte-identical, 16-bit alpha ±1, floats 1 ulp per pass); 2-D shapes x algorithms x alpha on/off; alpha multiply/divide at every row width. Every reachable u8 precision 13..21 is hit (recorded in the evidence).",
         "Custom-kernel geometries whose normalised window has Σ|w| >= 4 are outside the documented head-room and skipped; float alpha-aware cases use alpha in [0.5,1] (the division is ill-conditioned otherwise).",
         "DESIGN.md §4 C02"),
 "C03": ("three cooperating bounded-exhaustive explorations on both build profiles: invariants on the implementation's coefficient tables for every geometry and kernel (incl. replays that bind the static-table read to the code), an API sweep in isolated child processes with guard pages behind every image buffer and heap block, and every Resizer history up to a depth with fenced misaligned scratch buffers",
         "Model: every geometry of the model space x 7 built-in + 14 custom kernels: window bounds (all unchecked reads stay in the row), clip-table index range for ALL contents (replayed on the real kernels when the unclamped index would leave the table), accumulator ranges, SIMD precision dispatch under the head-room premise. Sweep: sizes (0..S)^4 x 30 algorithms (wild kernels, SuperSampling multiplicity 0..255) x valid+invalid crop alphabets x rotating pixel types/back-ends/containers, alpha/mapper/conversion operations, and the public view methods with arbitrary arguments (negative, NaN, inf, near u32::MAX); each case in a child process whose death by signal is attributed to the case. Histories: every call sequence of the C09 alphabet to depth 2/3. Verdict: Ok or documented Err; no signal, abort or panic (panics allowed only outside the head-room). A further space constructs custom filters with 18 support values (NaN, ±inf, negative, ±0, denormal .. 64) and uses the accepted ones.",
         "S = 3 / 6; pixel types, back-ends and containers rotate over the cases rather than forming a full product; heap fencing covers blocks with alignment <= 8; a NaN-valued kernel is outside the statement.",
         "DESIGN.md §4 C03"),
 "C04": ("bounded-exhaustive enumeration of u32 rectangles / f64 crop boxes / buffer lengths and alignments over every constructor, on both build profiles, exact-arithmetic oracle",
         "Every (left,top,width,height) from an alphabet that includes 2^31±1 and the values next to u32::MAX is given to all six cropped-view constructors on every image size up to 6x6; every crop box over a valid+invalid f64 alphabet (NaN, ±inf, negative, -0, denormal) goes through Resizer::resize in isolated child processes; nine buffer constructors x 13 pixel types x overflow sizes x lengths x alignments. Accept/reject is compared with exact u64/u128/TwoSum arithmetic and accepted views are read back against the rectangle model; both the optimised and the debug-assertion build are judged.",
         "Zero-area boxes and f64 boxes that exceed the image by less than the rounding of left+width are don't-care; image sizes are bounded by 7.",
         "DESIGN.md §4 C04"),
 "C05": ("bounded-exhaustive enumeration of operations x sizes incl. zero x destination container kinds x placements x sentinels on the real code; sentinel / differential oracle",
         "Every (sw,sh,dw,dh) in (0..S)^4 x 10 algorithms (SuperSampling multiplicities 1,2,3,255) x 4 crop variants x 13 pixel types is resized into every destination kind (owned, Vec/slice with 1, w, 3w+2 spare pixels, mutable cropped views at 8 placements, typed slice/buffer/cropped/nested views) under two sentinels; alpha, mapping and conversion operations likewise. Outside bytes must keep the sentinel, the rectangle must equal the exact-buffer result under both sentinels (nothing stale), the source must be unchanged, errors and zero sizes must leave the destination untouched. Both build profiles.",
         "S = 4 quick / 6 thorough; typed destination kinds are instantiated for 6 of the 13 pixel types (compile-time bound); thread counts belong to C08.",
         "DESIGN.md §4 C05"),
 "C06": ("exhaustive enumeration of (colour, alpha) pairs x lane layouts x back-ends x entry points on the real kernels, exact-integer oracle",
         "All 65536 8-bit pairs in 132 row layouts, 16-bit alpha rows x all 65536 colours (all 2^32 pairs in the thorough tier), boundary pairs at every width/offset, and a float alphabet are executed on every back-end and entry point and compared with exact integer / IEEE arithmetic; the per-pixel function has a finite domain, so enumeration decides it.",
         "Quick tier covers 16-bit pairs with alpha or colour in a 432-value boundary set; floats only on the listed alphabet.",
         "DESIGN.md §4 C06"),
 "C16": ("exhaustive enumeration of all table inputs x depth pairs x component positions x containers on the real mappers, f64 transfer-function oracle",
         "Every one of the 256/65536 inputs of every table (2 mappers x 2 directions x 4 depth pairs) is pushed through the real forward/backward map at every component position, row width and container kind; monotonicity, endpoints, the sRGB round trip and alpha pass-through are checked on the complete domain.",
         "Tolerance 0.5 + max_out*2^-19 against the f64 transfer function (tables are built in f32).",
         "DESIGN.md §4 C16"),
 "C17": ("exhaustive enumeration of the integer source domains (dense boundary alphabets for i32/f32) over all 43 supported and all unsupported type pairs on the real conversion",
         "All 256/65536 integer values and a dense boundary alphabet of i32/f32 values are converted through the real dynamic entry point for every type pair; monotonicity, endpoints, saturation, round trips and the accept/reject matrix are judged on the whole enumerated domain.",
         "i32/f32 sources are not enumerated completely (2^32 values): power-of-two neighbourhoods, a stride sweep and per-binade grids are the stated alphabet.",
         "DESIGN.md §4 C17"),
 "C07": ("bounded-exhaustive metamorphic enumeration: every alpha mask over {0,max}^n (and {0,mid,max}^n) x geometries x algorithms x alpha pixel types x back-ends on the real code",
         "For every 1-D geometry up to N x crops x 14 algorithms x 6 alpha pixel types x back-ends x both orientations ALL alpha masks are laid out as the lines of one image and resized under four different colour assignments for the transparent pixels; results must be identical, alpha 0 in the output must carry colour 0, the alpha channel must equal the one-channel resize of the alpha plane and an opaque source must give the use_alpha(false) result. 2-D shapes incl. SuperSampling with all masks (<= 8 pixels) or 48 structured masks.",
         "N = 6 / 10; geometries where the destination equals an integer crop are exact copies (C12) and excluded.",
         "DESIGN.md §4 C07"),
 "C08": ("controlled-scheduler exploration (loom) of the library's real band code under a loom-thread model of the rayon entry points it uses, plus exhaustive pool-size x shape x band-order enumeration with per-band write sets, the band-count arithmetic on a boundary alphabet, and conformance of the model against the real rayon",
         "Part 1: for 7 bodies x 4 pixel types x {portable, SIMD} x reported pool sizes x 2..5 workers loom explores every interleaving of the band claims/joins up to preemption bound 2/3 (thousands of executions); the destination is a harness ImageViewMut whose rows are loom UnsafeCells, so an unsynchronised access to a row is reported in every execution even when the bytes agree; every execution must equal the sequential bytes and run each band once. Part 2: every pool size 1..33,64,1000 x shapes incl. 65535/65536/65537-tall and -wide images x all band orders, write sets pairwise disjoint, both build profiles. Part 3: band-count functions on (0..300 ∪ 2^k±1)^2. Part 4: the same bodies under the real rayon at pool sizes 1..32+ agree with the single-threaded bytes (trace validation of the model).",
         "rayon itself is trusted (each for_each item runs exactly once); loom sees the model's atomics and the per-row cells, not plain accesses to other memory; loom's limit of 5 threads per execution bounds workers x regions.",
         "DESIGN.md §4 C08, §2.4"),
 "C09": ("explicit-state search (stateright BFS) over Resizer histories whose states hold the real Resizer; every transition runs the real operation on the reused and on a fresh Resizer",
         "State = real Resizer (deduplicated on its Debug rendering: back-end + full contents of the three scratch buffers, plus depth); 176 actions (8 pixel types of pixel size 1..16 and alignment 1/2/4, 4 geometries, 4 algorithms, alpha, fractional crops, erroring calls, reset_internal_buffers, clone, back-end switches) explored exhaustively to depth 2/3 and a 39-action sub-alphabet to depth 3/4; each transition compares result value and destination bytes with Resizer::new(); the search is run twice and the state/transition counts must agree. Later additions: ~270 actions incl. sprites with long zero runs, alpha-aware up-scales of interior crop boxes, equally sized tiles at three crop origins, a full-range 16-bit alpha resize, all-0xFF images, SuperSampling from a CroppedImage, size ladders of the three scratch buffers (deeper ladder search); states are rebuilt by replaying the action path on one live Resizer; each search runs in a child process so that a memory-corrupting change ends in a crash verdict.",
         "Depth-bounded; the alphabet of geometries and contents is finite and fixed; allocator behaviour (alignment of the scratch Vec) is the system allocator's here and adversarial in C03.",
         "DESIGN.md §4 C09, §2.3"),
 "C10": ("exact invariant check on the implementation's own integer coefficient tables for every geometry (model level, decides all component values), bound to the code by bounded-exhaustive direct resizes of uniform images",
         "Model level: for every geometry of the model space (full square of sizes up to S, boundary sizes up to 65537 against every small size, CROP1, 7 filters, adaptive on/off) the i16/i32 tables the real normalisers produce are read through the hook and Σk is checked exactly against 2^p, which decides the property for every one of the 256/65536 values. Direct: every 1-D geometry up to N x crops x 14 algorithms x 13 types x back-ends x 2 orientations on images whose line r carries value r (all 256 8-bit values), plus 2-D shapes with SuperSampling; alpha off and alpha at its maximum.",
         "Geometry bounded (S=40/160, N=12/32, extreme ratios from a list); float types only on the listed values; windows with zero total weight have no defined value and are excluded.",
         "DESIGN.md §4 C10"),
 "C11": ("bounded-exhaustive enumeration of sizes x the full crop alphabet^2 x pixel types x source containers in fenced memory with per-case process isolation; exact index oracle on tag images",
         "Every source size up to SxS with one destination axis varying up to D, against the full CROP1 x CROP1 alphabet (incl. sub-pixel boxes flush against the right/bottom edge down to n*2^-52 wide), the full size product up to F^4 with all 13 pixel types, and huge ratios; each through the dynamic entry (ImageRef, CroppedImage) and the typed entry (TypedImageRef's specialised row stepping, TypedCroppedImage's generic one), buffers ending at guard pages, cases isolated in child processes so a SIGSEGV is attributed to its case. Every destination pixel must be a byte copy of the source pixel at the documented index.",
         "S=8/16, D=12/20, F=4/5; within (n_out+4)*2^-51*extent of an integer either neighbour is accepted.",
         "DESIGN.md §4 C11"),
 "C12": ("bounded-exhaustive enumeration of image sizes x every integer sub-rectangle x 36 algorithms x alpha on/off x pixel types on the real code; byte-copy and line-by-line differential oracle",
         "Every image size up to WxW, every integer crop rectangle (all of them for sizes <= 5), all 36 algorithm variants incl. SuperSampling, alpha on and off, 13 pixel types with rotating back-ends, tag and non-premultiplied contents: the destination must be a byte copy of the region. With exactly one matching dimension the result must equal the resize of each line taken alone (no mixing along the matching dimension).",
         "W = 6 / 9; floats in the one-dimension family within 2 ulps.",
         "DESIGN.md §4 C12"),
 "C13": ("bounded-exhaustive differential enumeration over the container matrix (12 source kinds x 11 destination kinds, pairwise) x operations x pixel types x back-ends x placements x both entry points in fenced memory, isolated child processes",
         "14 operations x size pairs x 8 placements x 13 pixel types x back-ends are executed through every source and destination container kind and both entry points with buffers that end at a guard page; the destination rectangle must be byte-identical to the ImageRef -> slice baseline (floats included). Rayon leg: with feature `rayon` and the real rayon, 9 band bodies x 4 types x back-ends x shapes x source kinds {TypedImageRef, owned TypedImage, cropped view of either} x 4 destination kinds x pool sizes must give the bytes of (borrowed source, plain destination, pool of one).",
         "Container kinds varied pairwise, typed kinds for 6 of 13 pixel types (compile-time bound); sizes from a fixed list. The rayon leg runs under the OS scheduler (schedule independence is C08's loom exploration).",
         "DESIGN.md §4 C13"),
 "C14": ("bounded-exhaustive enumeration of view kinds x view sizes x every (start,size,parts) triple x direction with split-of-split, rectangle-model oracle with tag images and paint-and-inspect for mutable parts",
         "For every view kind (owned, referenced, cropped, nested, mutable, and a harness view using only the trait defaults), every view size up to BxB inside parents with margins, every (start,size,parts) incl. invalid ones and values near u32::MAX, and both directions, the real split functions are called; immutable parts are read back pixel by pixel against tags, mutable parts paint their index and the whole root image is compared with the expected index map, and every part is split again (depth 2). Both build profiles.",
         "B = 8 quick / 20 thorough; depth-2 splits for views up to 5x5 / 8x8; which parts get the remainder is not checked.",
         "DESIGN.md §4 C14"),
 "C18": ("sign and sum invariants on the implementation's coefficient tables for every geometry (decides all contents for 8/16-bit), plus bounded-exhaustive direct checks of range and of ordered image pairs",
         "Model level: for the four non-negative filters every i16/i32 coefficient and f64 weight of every geometry of the model space is >= 0 and the weights form a partition of unity; with the E2 conformance replays of C02 (kernels == clip((2^(p-1)+Σk·x)>>p)) this implies no overshoot and monotonicity for every image and every ordered pair of 8/16-bit formats. Direct: 1-D geometries up to N x crops x 8 algorithms x 13 types x back-ends x 2 orientations and 2-D shapes incl. SuperSampling on range-limited contents (touching 0, max, negative i32) and ordered pairs.",
         "Float/I32 formats are covered only by the direct enumeration (listed contents); one f32 ulp tolerance for floats.",
         "DESIGN.md §4 C18"),
 "C15": ("bounded-exhaustive enumeration of the real function over all size quadruples up to a bound x centering alphabet, judged by an f64 oracle",
         "Every (src,dst) size quadruple up to the bound, a boundary alphabet up to 65535 and the full centering alphabet are executed on the real CropBox::fit_src_into_dst_size and through Resizer::resize; a pure function of five scalars is decided by enumeration of its (bounded) domain.",
         "Sizes above the bound only through the 14-value boundary alphabet; tolerances 4 ulp (aspect) / 2 ulp (centering).",
         "DESIGN.md §4 C15"),
}

ALL = ["C%02d" % i for i in range(1, 19)]

def main():
    checks = []
    for pid in ALL:
        if pid not in CHECKS:
            continue
        tech, text, note, ref = CHECKS[pid]
        checks.append({
            "property_id": pid,
            "quick_cmd": f"./run.sh {pid} quick",
            "thorough_cmd": f"./run.sh {pid} thorough",
            "evidence_file": f"/verif/evidence/{pid}.json",
            "replay_cmd_template": f"./run.sh {pid} --replay {{path}}",
            "engine": "firmc",
            "level_claimed": {"category": "model_checking", "text": text, "design_ref": ref},
            "level_note": note,
            "technique": tech,
        })
    na = [{"property_id": p, "reason": "check not built yet in this revision (planned, see DESIGN.md §4); not claimed until it runs"} for p in ALL if p not in CHECKS]
    m = {
        "version": 1,
        "setup_cmd": "./run.sh --setup",
        "hooks": {
            "guard": "fir_verif",
            "enable": "RUSTFLAGS=\"--cfg fir_verif\" (set in /verif/*/.cargo/config.toml)",
            "baseline_off_cmd": "cd /repo && cargo test --workspace --no-fail-fast --offline",
            "source_commits": json.load(open("/verif/tools/hook_commits.json")),
            "add_only": True,
        },
        "engines": [
            {"name": "c08loom", "path": "/verif/loomh", "serves_properties": ["C08"], "kind_free_text": "E4 loom exploration of the real band code with a model crate substituted for rayon ([patch.crates-io]); serial band orders with write sets; band-count enumeration"},
            {"name": "c08rayon", "path": "/verif/rayonh", "serves_properties": ["C08"], "kind_free_text": "conformance of the rayon model against the real rayon thread pool"},
            {"name": "firmc", "path": "/verif/harness", "serves_properties": [c["property_id"] for c in checks],
             "kind_free_text": "E1 bounded-exhaustive explorer over index spaces (threads or isolated child processes), E2 coefficient model bound to the code by replay, E3 stateright explicit-state search over Resizer histories"},
        ],
        "checks": checks,
        "not_applicable": na,
        "notes": "All checks rebuild from /repo's working tree via cargo path dependency. Exit 2 + MACHINERY-ERROR means the machinery failed, never a verdict. Known findings: /verif/known_findings.jsonl.",
    }
    json.dump(m, open("/verif/MANIFEST.json", "w"), indent=1)
    print("MANIFEST.json:", len(checks), "checks,", len(na), "not applicable")

main()
