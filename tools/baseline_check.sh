#!/bin/bash
# Runs the repository's own test suite with the verification guard OFF and compares the passing
# tests with /root/.vp/BASELINE.json (stable_pass). Usage: tools/baseline_check.sh [logfile]
LOG=${1:-/tmp/baseline_check.log}
cd /repo && cargo test --workspace --no-fail-fast --offline >"$LOG" 2>&1
python3 - "$LOG" <<'PY'
import json,re,sys
log=open(sys.argv[1]).read()
base=json.load(open('/root/.vp/BASELINE.json'))
ok=set(re.findall(r'^test (\S+) \.\.\. ok',log,re.M))
missing=[t for t in base['stable_pass'] if t.split('::',1)[1].replace('bin/resizer::','') not in ok and t.split('::',1)[1] not in ok]
# baseline names are "<crate>::<path>"; cargo test prints only "<path>"
missing=[t for t in base['stable_pass'] if not any(t.endswith('::'+o) or t.endswith(o) for o in ok)]
print("baseline stable_pass:",len(base['stable_pass']),"still passing:",len(base['stable_pass'])-len(missing))
for m in missing: print("MISSING",m)
sys.exit(1 if missing else 0)
PY
