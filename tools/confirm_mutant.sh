#!/bin/bash
# tools/confirm_mutant.sh <worktree> [features]
# Independent confirmation of a seeded change delivered in <worktree>/MUTANT:
#  (1) the patch applies to a clean checkout and the crate builds;
#  (2) with the patch the repository's own suite still passes the BASELINE stable set;
#  (3) the demonstration FAILS with the patch and PASSES without it.
WT=$1; FEAT=${2:-}
cd $WT || exit 2
git checkout -q -- src Cargo.toml 2>/dev/null
cp MUTANT/demo.rs tests/mutant_demo.rs 2>/dev/null
echo "== clean tree: demo must pass"
cargo test --offline $FEAT --test mutant_demo > MUTANT/confirm_clean_demo.log 2>&1; c1=$?
git apply MUTANT/patch.diff || { echo "PATCH DOES NOT APPLY"; exit 1; }
echo "== patched tree: demo must fail"
cargo test --offline $FEAT --test mutant_demo > MUTANT/confirm_patched_demo.log 2>&1; c2=$?
echo "== patched tree: existing suite"
mv tests/mutant_demo.rs /tmp/mutant_demo_$$.rs
cargo test --workspace --no-fail-fast --offline > MUTANT/confirm_suite.log 2>&1
mv /tmp/mutant_demo_$$.rs tests/mutant_demo.rs
python3 - MUTANT/confirm_suite.log <<'PY'
import json,re,sys
log=open(sys.argv[1]).read()
base=json.load(open('/root/.vp/BASELINE.json'))
ok=set(re.findall(r'^test (\S+) \.\.\. ok',log,re.M))
missing=[t for t in base['stable_pass'] if not any(t.endswith('::'+o) or t.endswith(o) for o in ok)]
print("suite: baseline stable tests still passing:",len(base['stable_pass'])-len(missing),"/",len(base['stable_pass']), missing)
PY
echo "demo clean exit=$c1 (want 0), demo patched exit=$c2 (want non-zero)"
