#!/usr/bin/env python3
"""Turns the raw detection-matrix log (lines: <mutant> <check> <exit> <signatures>) into a markdown table."""
import sys,collections
rows=collections.OrderedDict()
for l in open(sys.argv[1]):
    p=l.split()
    if len(p)!=4 or not p[0].startswith('C'): continue
    m,c,rc,s=p
    rows.setdefault(m,{})[c]=(rc,s)
checks=["C%02d"%i for i in range(1,19)]
print("| seeded change \\\\ check | "+" | ".join(c[1:] for c in checks)+" |")
print("|---|"+"---|"*len(checks))
for m,d in rows.items():
    cells=[]
    for c in checks:
        rc,s=d.get(c,("",""))
        if rc=="1": cells.append("**X**" if c==m else "x")
        elif rc=="0": cells.append("MISS" if c==m else "·")
        elif rc=="": cells.append(" ")
        else: cells.append("err")
    print(f"| {m} | "+" | ".join(cells)+" |")
