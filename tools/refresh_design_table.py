#!/usr/bin/env python3
"""Regenerate the table at the end of DESIGN.md section 9.14 from the current evidence files."""
import subprocess
p = "/verif/DESIGN.md"
s = open(p).read()
marker = "| property | space | executed | planned | profile | runs in |"
i = s.index(marker)
table = subprocess.check_output(["python3", "/verif/tools/spaces_to_md.py"], text=True)
open(p, "w").write(s[:i] + table)
print("table refreshed:", table.count("\n"), "lines")
