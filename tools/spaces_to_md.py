#!/usr/bin/env python3
"""tools/spaces_to_md.py — print a markdown table of every exploration space of every check, taken
from the evidence files the checks wrote (so the table is what ran, not what was planned)."""
import json, glob, sys

rows = []
for f in sorted(glob.glob("/verif/evidence/C*.json")):
    e = json.load(open(f))
    c = e["coverage"]
    pid = e["property_id"]
    for s in c.get("spaces", []):
        name = s.get("space", "?")
        planned = s.get("planned", s.get("cases", ""))
        executed = s.get("executed", s.get("cases", ""))
        prof = s.get("profile", "")
        iso = "child processes" if s.get("isolated") else ("engine" if "pool_sizes" in s or "engine" in name or s.get("profile") is None else "driver threads")
        rows.append((pid, name.replace("|", "/"), executed, planned, prof, iso))
    rows.append((pid, "**total** (tier %s): states %s, transitions %s, classes %s, outcomes %s" % (e["tier"], c.get("states"), c.get("transitions"), c.get("distinct_control_flow_classes"), c.get("distinct_outcomes")), "", "", "", ""))

print("| property | space | executed | planned | profile | runs in |")
print("|---|---|---|---|---|---|")
for r in rows:
    print("| %s | %s | %s | %s | %s | %s |" % r)
