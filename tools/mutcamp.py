#!/usr/bin/env python3
"""tools/mutcamp.py — operator-mutation campaign against the QUICK tier (a test of the machinery,
not a verification step; nothing here is registered in MANIFEST.json).

  mutcamp.py gen  <out.jsonl> [per_file]      enumerate candidate mutants of /repo/src (x86 + portable files)
  mutcamp.py run  <copy_dir> <mutants.jsonl> <k> <n> <results.jsonl>
        evaluate mutants with index % n == k on an independent copy of /repo and /verif under <copy_dir>
        (created on first use; /repo itself is never touched)

For each mutant: apply to the copy, build the release harness, run the quick checks cheapest first
until one reports a violation (exit 1 with a VIOLATION line). Outcome: stillborn (does not build),
killed:<Cxx>, survived, or machinery:<Cxx> (exit 2).
"""
import json, os, re, subprocess, sys, shutil, time

SRC = "/repo/src"
SKIP_DIRS = ("neon", "wasm32")
SKIP_FILES = ("testing.rs", "verif.rs", "errors.rs", "lib.rs", "cpu_extensions.rs", "image_crate.rs", "threading.rs", "wasm32_utils.rs", "neon_utils.rs")

OPS = [
    ("rel_lt", re.compile(r" < "), " <= "),
    ("rel_le", re.compile(r" <= "), " < "),
    ("rel_gt", re.compile(r" > "), " >= "),
    ("rel_ge", re.compile(r" >= "), " > "),
    ("plus1", re.compile(r"\+ 1\b(?!\.)"), "+ 2"),
    ("minus1", re.compile(r"- 1\b(?!\.)"), "- 0"),
    ("minmax", re.compile(r"\.min\("), ".max("),
    ("maxmin", re.compile(r"\.max\("), ".min("),
    ("andor", re.compile(r" && "), " || "),
    ("orand", re.compile(r" \|\| "), " && "),
    ("addsub", re.compile(r" \+= "), " -= "),
    ("idx", re.compile(r"\[0\]"), "[1]"),
    ("packus32", re.compile(r"packus_epi32"), "packs_epi32"),
    ("packs32", re.compile(r"packs_epi32"), "packus_epi32"),
    ("packus16", re.compile(r"packus_epi16"), "packs_epi16"),
    ("srai", re.compile(r"srai_epi32"), "srli_epi32"),
    ("cvtepu8", re.compile(r"cvtepu8_"), "cvtepi8_"),
    ("cvtepu16", re.compile(r"cvtepu16_"), "cvtepi16_"),
    ("addepi32", re.compile(r"_add_epi32"), "_sub_epi32"),
    ("addps", re.compile(r"_add_ps\b"), "_sub_ps"),
    ("addpd", re.compile(r"_add_pd\b"), "_sub_pd"),
    ("minps", re.compile(r"_min_ps\b"), "_max_ps"),
    ("half", re.compile(r"\b0\.5\b"), "0.25"),
    ("shl", re.compile(r" << "), " >> "),
    ("mulstar", re.compile(r" \* 2\b"), " * 3"),
    ("div2", re.compile(r" / 2\b"), " / 3"),
    ("num4", re.compile(r"\b4\b(?![.\]])"), "8"),
    ("num8", re.compile(r"\b8\b(?![.\]])"), "4"),
]

BAD_LINE = re.compile(r"^\s*(//|#\[|use |pub use |mod |pub mod |pub\(crate\) mod |fn |pub fn |pub\(crate\) fn |impl|where|unsafe fn|pub unsafe fn|pub\(crate\) unsafe fn|type |pub type |const fn)|debug_assert|->|::<|target_feature|assert!|assert_eq!")


def candidates(path):
    rel = os.path.relpath(path, "/repo")
    lines = open(path).read().split("\n")
    out = []
    for i, line in enumerate(lines):
        if "#[cfg(test)]" in line:
            break
        code = line.split("//")[0]
        if not code.strip() or BAD_LINE.search(code):
            continue
        for name, rx, repl in OPS:
            for m in rx.finditer(code):
                if name.startswith("rel_") and not re.search(r"\b(if|while)\b|&&|\|\||=> |let .* = ", code):
                    continue
                if name.startswith("rel_") and re.search(r"<[A-Za-z_&\[(]|Vec<|Option<|>::|: [A-Z]\w*<", code):
                    continue
                if name in ("num4", "num8") and not re.search(r"step_by|chunks|%|/ |\* |\+ |- |< |> |take|skip|\.\.", code):
                    continue
                new = code[: m.start()] + repl + code[m.end():] + line[len(code):]
                out.append({"file": rel, "line": i + 1, "op": name, "old": line, "new": new})
    return out


def gen(outp, per_file, skip_file=None, only=None):
    allc = []
    used = set()
    if skip_file:
        for sf in skip_file.split(","):
            for r in json.load(open(sf)):
                used.add((r["file"], r["line"]))
    for root, dirs, files in os.walk(SRC):
        if any(s in root for s in SKIP_DIRS):
            continue
        for f in sorted(files):
            if not f.endswith(".rs") or f in SKIP_FILES or f[:-3] in SKIP_DIRS:
                continue
            if only and not re.search(only, os.path.relpath(os.path.join(root, f), "/repo")):
                continue
            c = [x for x in candidates(os.path.join(root, f)) if (x["file"], x["line"]) not in used]
            if not c:
                continue
            # choose per_file candidates: round-robin over operator kinds, evenly spread in the file
            byop = {}
            for x in c:
                byop.setdefault(x["op"], []).append(x)
            picked, r = [], 0
            import zlib
            ops = sorted(byop, key=lambda o: zlib.crc32((o + f + root).encode()))
            while len(picked) < per_file and any(byop[o] for o in ops):
                o = ops[r % len(ops)]
                r += 1
                if byop[o]:
                    lst = byop[o]
                    x = lst.pop((len(lst) // 3) if skip_file else (len(lst) // 2))
                    if not any(p["line"] == x["line"] for p in picked):
                        picked.append(x)
            allc += picked
    allc.sort(key=lambda x: (x["file"], x["line"], x["op"]))
    with open(outp, "w") as fh:
        for k, x in enumerate(allc):
            x["id"] = k
            fh.write(json.dumps(x) + "\n")
    print(len(allc), "mutants")


CHEAP_ORDER = ["C12", "C17", "C16", "C04", "C14", "C13", "C15", "C07", "C05", "C02", "C01", "C06", "C18", "C11", "C10", "C09", "C03"]


def order_for(file):
    pri = []
    if "alpha" in file or "mul_div" in file:
        pri = ["C06", "C07", "C02", "C13"]
    elif "convolution" in file:
        pri = ["C02", "C01", "C10", "C18", "C05"]
    elif "color" in file:
        pri = ["C16"]
    elif "pixels" in file or "change_components" in file:
        pri = ["C17"]
    elif "crop_box" in file:
        pri = ["C04", "C15"]
    elif "images" in file or "image_view" in file:
        pri = ["C04", "C14", "C13", "C12", "C05"]
    elif "resizer" in file:
        pri = ["C12", "C05", "C01", "C11", "C09"]
    return pri + [c for c in CHEAP_ORDER if c not in pri]


def make_copy(copy):
    if os.path.exists(copy + "/verif/harness/Cargo.toml"):
        return
    os.makedirs(copy, exist_ok=True)
    subprocess.check_call(["rsync", "-a", "--exclude", "target", "/repo/", copy + "/repo/"])
    subprocess.check_call(["rsync", "-a", "--exclude", ".target", "--exclude", ".git", "--exclude", "seeded", "--exclude", "replays", "/verif/", copy + "/verif/"])
    subprocess.check_call(["git", "-C", copy + "/repo", "checkout", "-q", "--", "."])
    for root, dirs, files in os.walk(copy + "/verif"):
        for f in files:
            if f.endswith((".rs", ".toml", ".sh")):
                p = os.path.join(root, f)
                s = open(p).read()
                s2 = re.sub(r"(?<![\w/])/verif\b", copy + "/verif", s)
                s2 = re.sub(r"(?<![\w/])/repo\b", copy + "/repo", s2)
                if s2 != s:
                    open(p, "w").write(s2)


def run(copy, mutants, k, n, results):
    make_copy(copy)
    env = dict(os.environ, CARGO_NET_OFFLINE="true", VERIF_SINGLE_PROFILE="1", VERIF_KNOWN="/verif/known_findings.jsonl")
    done = set()
    if os.path.exists(results):
        done = {json.loads(l)["id"] for l in open(results)}
    for line in open(mutants):
        m = json.loads(line)
        if m["id"] % n != k or m["id"] in done:
            continue
        path = copy + "/repo/" + m["file"]
        subprocess.check_call(["git", "-C", copy + "/repo", "checkout", "-q", "--", "."])
        lines = open(path).read().split("\n")
        assert lines[m["line"] - 1] == m["old"], (m, lines[m["line"] - 1])
        lines[m["line"] - 1] = m["new"]
        open(path, "w").write("\n".join(lines))
        t0 = time.time()
        b = subprocess.run(["nice", "-n", "15", "cargo", "build", "--offline", "--release"], cwd=copy + "/verif/harness", env=env, capture_output=True, text=True)
        res = dict(m)
        if b.returncode != 0:
            res["outcome"] = "stillborn"
        else:
            res["outcome"] = "survived"
            res["ran"] = []
            out = copy + "/out/%d" % m["id"]
            shutil.rmtree(out, ignore_errors=True)
            os.makedirs(out)
            for c in order_for(m["file"]):
                e = dict(env, VERIF_ROOT=out)
                try:
                    r = subprocess.run(["nice", "-n", "15", copy + "/verif/.target/harness/release/firmc", c, "quick"], env=e, capture_output=True, text=True, timeout=900)
                    rc = r.returncode
                    viol = "VIOLATION property=" in r.stdout
                except subprocess.TimeoutExpired:
                    rc, viol = 124, False
                res["ran"].append([c, rc])
                if rc == 1 and viol:
                    res["outcome"] = "killed:" + c
                    try:
                        ev = json.load(open(out + "/evidence/%s.json" % c))
                        res["sig"] = sorted(ev["coverage"]["violating_cases_by_signature"].keys())[:3]
                    except Exception:
                        pass
                    break
                if rc == 2 and c in ("C13", "C05") and "cannot run" in (r.stderr or ""):
                    # the copy has no real-rayon engine binary (legs of C05/C13): the single-threaded
                    # spaces of the check ran and were clean; go on with the next check
                    res.setdefault("skipped_engine", []).append(c)
                    continue
                if rc not in (0, 1):
                    res["outcome"] = "machinery:%s:%d" % (c, rc)
                    res["tail"] = (r.stderr if rc != 124 else "timeout")[-400:]
                    break
            shutil.rmtree(out, ignore_errors=True)
        res["secs"] = round(time.time() - t0)
        with open(results, "a") as fh:
            fh.write(json.dumps(res) + "\n")
    subprocess.check_call(["git", "-C", copy + "/repo", "checkout", "-q", "--", "."])


if __name__ == "__main__":
    if sys.argv[1] == "gen":
        gen(sys.argv[2], int(sys.argv[3]) if len(sys.argv) > 3 else 3, sys.argv[4] if len(sys.argv) > 4 else None, sys.argv[5] if len(sys.argv) > 5 else None)
    elif sys.argv[1] == "run":
        run(sys.argv[2], sys.argv[3], int(sys.argv[4]), int(sys.argv[5]), sys.argv[6])
