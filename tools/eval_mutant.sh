#!/bin/bash
# tools/eval_mutant.sh <patch.diff> <name> <Cxx> [Cyy ...]
# Applies a seeded change to /repo's working tree, runs the quick tier of the given checks with
# evidence/replays redirected to /tmp/vmut/<name>, and restores the tree. Prints one line per check.
set -u
PATCH=$1; NAME=$2; shift 2
OUT=/tmp/vmut/$NAME; mkdir -p $OUT
cd /repo || exit 2
if [ -n "$(git status --porcelain --untracked-files=no)" ]; then echo "/repo is dirty" >&2; exit 2; fi
git apply "$PATCH" || { echo "patch does not apply" >&2; exit 2; }
trap 'git -C /repo checkout -- . ' EXIT
for P in "$@"; do
  t0=$(date +%s)
  VERIF_ROOT=$OUT /verif/run.sh $P ${TIER:-quick} > $OUT/$P.log 2>&1
  rc=$?
  n=$(grep -c "^VIOLATION" $OUT/$P.log)
  sigs=$(jq -r '.coverage.violating_cases_by_signature | keys | length' $OUT/evidence/$P.json 2>/dev/null)
  echo "$NAME $P exit=$rc violation_lines=$n signatures=${sigs:-?} $(( $(date +%s) - t0 ))s"
done
