//! C08 part 4 — conformance of the rayon model: the same bodies, driven by the *real* rayon at
//! every pool size 1..32 (and above the row count), must give the bytes of the single-threaded
//! run. The OS schedule is uncontrolled here: this binds the model, it is not the schedule
//! argument (that is the loom exploration in the other workspace).
#[path = "../../harness/src/explore.rs"]
#[allow(dead_code)]
mod explore;
#[path = "../../loomh/src/common.rs"]
mod common;

use common::*;
use explore::*;
use fast_image_resize::CpuExtensions;
use serde_json::json;

fn fnv1(b: &[u8]) -> u64 {
    let mut h = 0xcbf29ce484222325u64;
    for &x in b {
        h ^= x as u64;
        h = h.wrapping_mul(0x100000001b3);
    }
    h
}

/// C13 under the rayon feature: the container families have different band-splitting
/// implementations (slice splits for TypedImage / TypedImageRef, the trait defaults for cropped
/// and user views), so "the result does not depend on the container" gets a multi-threaded leg:
/// every source kind x destination kind must give the bytes of (borrowed source, plain
/// destination, pool of one).
fn c13_mode(thorough: bool) {
    use std::sync::atomic::Ordering;
    let t0 = std::time::Instant::now();
    let ns: Vec<usize> = if thorough { vec![2, 3, 4, 5, 7, 8, 16, 32] } else { vec![2, 3, 4, 7] };
    let hs: Vec<u32> = if thorough { vec![1, 2, 5, 31, 32, 33, 47, 64, 100, 257] } else { vec![1, 5, 33, 47, 64] };
    let ws: Vec<u32> = if thorough { vec![1, 3, 16, 33, 64, 100] } else { vec![1, 3, 33, 64] };
    let simd = if CpuExtensions::Avx2.is_supported() { 2 } else { 0 };
    let one = rayon::ThreadPoolBuilder::new().num_threads(1).build().expect("pool");
    let pools: Vec<(usize, rayon::ThreadPool)> = ns.iter().map(|&n| (n, rayon::ThreadPoolBuilder::new().num_threads(n).build().expect("pool"))).collect();
    let mut ctx = Ctx::new("containers under real rayon");
    let mut cases = 0u64;
    for &dh in hs.iter() {
        for &dw in ws.iter() {
            for &body in BODIES.iter() {
                for (pi, &pt) in PTS.iter().enumerate() {
                    for be in [0, simd] {
                        let c = Case { body, pt, be, dw, dh };
                        let _ = pi;
                        if !applicable(&c) || (be == simd && simd == 0) {
                            continue;
                        }
                        cases += 1;
                        ctx.idx = cases;
                        SRC_KIND.store(1, Ordering::Relaxed);
                        let Ok(exp_plain) = guarded(|| one.install(|| run_body_pt(&c, &DstKind::Typed, 0x5A, None))) else { continue };
                        let Ok(exp_cropped) = guarded(|| one.install(|| run_body_pt(&c, &DstKind::CroppedTyped, 0x5A, None))) else { continue };
                        for sk in 1..=4usize {
                            for (n, pool) in pools.iter() {
                                for (ki, kind) in [DstKind::Typed, DstKind::Tracked(Track::Off, false), DstKind::CroppedTyped, DstKind::CroppedTracked(Track::Off, false)].iter().enumerate() {
                                    SRC_KIND.store(sk, Ordering::Relaxed);
                                    let r = guarded(|| pool.install(|| run_body_pt(&c, kind, 0x5A, None)));
                                    ctx.ops += 1;
                                    ctx.traces += 1;
                                    let sk_name = ["", "TypedImageRef", "TypedImage (owned)", "TypedCroppedImage of a TypedImageRef", "TypedCroppedImage of an owned TypedImage"][sk];
                                    let det = |extra: serde_json::Value| json!({"body": format!("{:?}", body), "pixel": format!("{:?}", pt), "backend": be, "dst": [dw, dh], "src": format!("{:?}", src_size(&c)),
                                        "source_kind": sk_name, "destination_kind": ki, "pool_size": n, "more": extra});
                                    match r {
                                        Err((loc, msg)) => ctx.violation(format!("C13|rayon|panic|{}|{}", loc, panic_class(&msg)), || det(json!({"message": msg}))),
                                        Ok(out) => {
                                            let exp = if kind.is_cropped() { &exp_cropped } else { &exp_plain };
                                            if &out != exp {
                                                let i = out.iter().zip(exp.iter()).position(|(a, b)| a != b).unwrap_or(0);
                                                ctx.violation(format!("C13|rayon|{:?}|{:?}|source kind {}|result differs from (borrowed source, pool of one)", body, pt, sk), || det(json!({"first_differing_byte": i})));
                                            }
                                            ctx.outcome(fnv1(&out));
                                        }
                                    }
                                }
                            }
                        }
                        SRC_KIND.store(0, Ordering::Relaxed);
                        ctx.class(((body as u64) << 8) | ((pt as u64) << 4) | be as u64);
                        ctx.nontrivial += 1;
                        if cases == 1 || cases % 53 == 0 {
                            ctx.samples.push(json!({"rayon_container_case": {"body": format!("{:?}", body), "pixel": format!("{:?}", pt), "backend": be, "dst": [dw, dh], "pool_sizes": ns, "source_kinds": 4, "destination_kinds": 4}}));
                        }
                    }
                }
            }
        }
    }
    ctx.samples.truncate(3);
    let mut rep = Report::default();
    rep.absorb_ctx(ctx);
    rep.cases = cases;
    rep.planned = cases;
    rep.spaces.push(json!({"space": "rayon leg: bodies x types x back-ends x shapes x 4 source kinds x 4 destination kinds x pool sizes, against (borrowed source, plain destination, pool of one)", "cases": cases, "pool_sizes": ns, "wall_s": t0.elapsed().as_secs_f64()}));
    eprintln!("[C13 rayon leg] cases {} runs {} violations {} {:.1}s", cases, rep.ops, rep.sig_counts.len(), t0.elapsed().as_secs_f64());
    let mut v = report_to_json(&rep);
    v["planned"] = json!(rep.planned);
    v["spaces"] = json!(rep.spaces);
    println!("{}", v);
}

/// C05 under the rayon feature ("for all thread counts"): every destination kind, under two
/// different previous contents, must come out exactly as from a pool of one — the whole parent
/// buffer is compared, so band code that writes outside a cropped view or leaves part of the view
/// stale is visible — and the view itself must not depend on the previous content.
fn c05_mode(thorough: bool) {
    let t0 = std::time::Instant::now();
    let ns: Vec<usize> = if thorough { vec![2, 3, 4, 5, 7, 8, 16, 32] } else { vec![2, 3, 4, 7] };
    let hs: Vec<u32> = if thorough { vec![1, 2, 5, 31, 32, 33, 47, 64, 100, 257] } else { vec![1, 5, 33, 48, 64] };
    let ws: Vec<u32> = if thorough { vec![1, 3, 16, 33, 64, 100] } else { vec![1, 3, 33, 64] };
    let simd = if CpuExtensions::Avx2.is_supported() { 2 } else { 0 };
    let one = rayon::ThreadPoolBuilder::new().num_threads(1).build().expect("pool");
    let pools: Vec<(usize, rayon::ThreadPool)> = ns.iter().map(|&n| (n, rayon::ThreadPoolBuilder::new().num_threads(n).build().expect("pool"))).collect();
    let mut ctx = Ctx::new("destinations under real rayon");
    let mut cases = 0u64;
    for &dh in hs.iter() {
        for &dw in ws.iter() {
            for &body in BODIES.iter() {
                for &pt in PTS.iter() {
                    for be in [0, simd] {
                        let c = Case { body, pt, be, dw, dh };
                        if !applicable(&c) || (be == simd && simd == 0) {
                            continue;
                        }
                        cases += 1;
                        ctx.idx = cases;
                        let kinds = [DstKind::Typed, DstKind::Tracked(Track::Off, false), DstKind::CroppedTyped, DstKind::CroppedTracked(Track::Off, false)];
                        for (ki, kind) in kinds.iter().enumerate() {
                            let mut views: Vec<Vec<u8>> = vec![];
                            for sentinel in [0x5Au8, 0xA5] {
                                let Ok(exp) = guarded(|| one.install(|| run_body_pt(&c, &kind.reference(), sentinel, None))) else { continue };
                                for (n, pool) in pools.iter() {
                                    let r = guarded(|| pool.install(|| run_body_pt(&c, kind, sentinel, None)));
                                    ctx.ops += 1;
                                    ctx.traces += 1;
                                    let det = |extra: serde_json::Value| json!({"body": format!("{:?}", body), "pixel": format!("{:?}", pt), "backend": be, "dst": [dw, dh], "src": format!("{:?}", src_size(&c)), "destination_kind": ki, "cropped_placement": format!("{:?}", CROP_PLACE), "sentinel": sentinel, "pool_size": n, "more": extra});
                                    match r {
                                        Err((loc, msg)) => ctx.violation(format!("C05|rayon|panic|{}|{}", loc, panic_class(&msg)), || det(json!({"message": msg}))),
                                        Ok(out) => {
                                            if out != exp {
                                                let i = out.iter().zip(exp.iter()).position(|(a, b)| a != b).unwrap_or(0);
                                                let px = i / psize(pt);
                                                let pw = if kind.is_cropped() { dw + CROP_PLACE.0 + CROP_PLACE.2 } else { dw } as usize;
                                                let (x, y) = ((px % pw) as u32, (px / pw) as u32);
                                                let inside = !kind.is_cropped() || (x >= CROP_PLACE.0 && x < CROP_PLACE.0 + dw && y >= CROP_PLACE.1 && y < CROP_PLACE.1 + dh);
                                                ctx.violation(format!("C05|rayon|{:?}|{:?}|{}", body, pt, if inside { "destination pixels differ from the single-threaded result (stale or misplaced)" } else { "bytes outside the destination view changed" }), || det(json!({"first_differing_byte": i, "parent_pixel": [x, y]})));
                                            }
                                            if *n == ns[0] {
                                                views.push(out.clone());
                                            }
                                            ctx.outcome(fnv1(&out));
                                        }
                                    }
                                }
                            }
                            // the view must not depend on the previous content (plain kinds: whole buffer)
                            if !kind.is_cropped() && views.len() == 2 && views[0] != views[1] && body != Body::DivAlphaInplace {
                                ctx.violation(format!("C05|rayon|{:?}|{:?}|result depends on what the destination held before", body, pt), || json!({"dst": [dw, dh], "backend": be, "destination_kind": ki}));
                            }
                        }
                        ctx.class(((body as u64) << 8) | ((pt as u64) << 4) | be as u64);
                        ctx.nontrivial += 1;
                        if cases == 1 || cases % 53 == 0 {
                            ctx.samples.push(json!({"rayon_destination_case": {"body": format!("{:?}", body), "pixel": format!("{:?}", pt), "backend": be, "dst": [dw, dh], "pool_sizes": ns, "destination_kinds": 4, "sentinels": 2}}));
                        }
                    }
                }
            }
        }
    }
    ctx.samples.truncate(3);
    let mut rep = Report::default();
    rep.absorb_ctx(ctx);
    rep.cases = cases;
    rep.planned = cases;
    rep.spaces.push(json!({"space": "rayon leg: bodies x types x back-ends x shapes x 4 destination kinds (plain, trait-default view, cropped views of both) x 2 previous contents x pool sizes, whole parent buffer against the pool of one", "cases": cases, "pool_sizes": ns, "wall_s": t0.elapsed().as_secs_f64()}));
    eprintln!("[C05 rayon leg] cases {} runs {} violations {} {:.1}s", cases, rep.ops, rep.sig_counts.len(), t0.elapsed().as_secs_f64());
    let mut v = report_to_json(&rep);
    v["planned"] = json!(rep.planned);
    v["spaces"] = json!(rep.spaces);
    println!("{}", v);
}

fn main() {
    let args: Vec<String> = std::env::args().collect();
    install_quiet_panic_hook();
    if args.get(1).map(|s| s == "c05").unwrap_or(false) {
        return c05_mode(args.get(2).map(|s| s == "thorough").unwrap_or(false));
    }
    if args.get(1).map(|s| s == "c13").unwrap_or(false) {
        return c13_mode(args.get(2).map(|s| s == "thorough").unwrap_or(false));
    }
    let thorough = args.get(1).map(|s| s == "thorough").unwrap_or(false);
    let t0 = std::time::Instant::now();
    // auxiliary ThreadSanitizer pass (same bodies, free-running): a reduced list in the quick tier
    let tsan = std::env::var("C08_TSAN").is_ok();
    let reduced = tsan && !thorough;
    let thorough = thorough && !tsan;
    let ns: Vec<usize> = if reduced { vec![1, 2, 3, 7, 32] } else if thorough { (1..=33).chain([64, 300]).collect() } else { vec![1, 2, 3, 4, 7, 16, 32, 33, 64] };
    let repeats = if reduced { 1 } else if thorough { 4 } else { 2 };
    let mut shapes: Vec<(u32, u32)> = vec![];
    let hs: Vec<u32> = if reduced { vec![33, 64, 100] } else if thorough { vec![1, 2, 31, 32, 33, 40, 47, 64, 65, 100, 128, 255, 256, 257] } else { vec![1, 32, 33, 47, 64, 100, 257] };
    let ws: Vec<u32> = if reduced { vec![3, 33] } else if thorough { vec![1, 2, 3, 16, 31, 32, 33, 64, 100] } else { vec![1, 3, 33, 64] };
    for &h in hs.iter() {
        for &w in ws.iter() {
            shapes.push((w, h));
            if w != h {
                shapes.push((h, w));
            }
        }
    }
    shapes.sort();
    shapes.dedup();
    for big in if reduced { vec![] } else { vec![4096u32, 65535, 65536, 65537] } {
        shapes.push((1, big));
        shapes.push((big, 1));
        shapes.push((2, big));
    }
    let simd = if CpuExtensions::Avx2.is_supported() { 2 } else { 0 };
    let pools: Vec<(usize, rayon::ThreadPool)> = ns.iter().map(|&n| (n, rayon::ThreadPoolBuilder::new().num_threads(n).build().expect("pool"))).collect();
    let mut ctx = Ctx::new("real rayon");
    let mut cases = 0u64;
    for &(dw, dh) in shapes.iter() {
        for &body in BODIES.iter() {
            for (pi, &pt) in PTS_EXT.iter().enumerate() {
                let c = Case { body, pt, be: if (dw + dh) as usize % 2 == pi % 2 { simd } else { 0 }, dw, dh };
                if !applicable(&c) {
                    continue;
                }
                let huge = dw.max(dh) > 1000;
                if huge && !matches!((body, pt), (Body::Horiz, Pt::U8) | (Body::Vert, Pt::U8) | (Body::MulAlpha, Pt::U8x4) | (Body::DivAlphaInplace, Pt::U16x2) | (Body::TwoPass, Pt::F32) | (Body::HorizCrop, Pt::U8x4)) {
                    continue;
                }
                cases += 1;
                ctx.idx = cases;
                let det = |n: usize, extra: serde_json::Value| json!({"body": format!("{:?}", body), "pixel": format!("{:?}", pt), "backend": c.be, "dst": [dw, dh], "src": format!("{:?}", src_size(&c)), "pool_size": n, "more": extra});
                // reference: pool of one thread
                let expected = match guarded(|| pools[0].1.install(|| run_body_pt(&c, &DstKind::Typed, 0x5A, None))) {
                    Ok(e) => e,
                    Err((loc, msg)) => {
                        ctx.violation(format!("C08|real rayon|panic|{}|{}", loc, panic_class(&msg)), || det(1, json!({"message": msg})));
                        continue;
                    }
                };
                ctx.ops += 1;
                let expected_cropped = match guarded(|| pools[0].1.install(|| run_body_pt(&c, &DstKind::CroppedTyped, 0x5A, None))) {
                    Ok(e) => e,
                    Err(_) => continue,
                };
                for (n, pool) in pools.iter() {
                    if huge && !matches!(*n, 1 | 2 | 3 | 32 | 64) {
                        continue;
                    }
                    for rep in 0..repeats {
                        let kind = match (rep + n + dw as usize) % 4 { 0 => DstKind::Typed, 1 => DstKind::Tracked(Track::Off, false), 2 => DstKind::CroppedTyped, _ => DstKind::CroppedTracked(Track::Off, false) };
                        let expected = if kind.is_cropped() { &expected_cropped } else { &expected };
                        // a different previous content each time: stale pixels become visible
                        // (cropped destinations: the parent's margins hold the sentinel, so it stays fixed)
                        let sentinel = if rep % 2 == 0 || kind.is_cropped() { 0x5A } else { 0xA5 };
                        let r = guarded(|| pool.install(|| run_body_pt(&c, &kind, sentinel, None)));
                        ctx.ops += 1;
                        ctx.traces += 1;
                        match r {
                            Err((loc, msg)) => {
                                ctx.violation(format!("C08|real rayon|panic|{}|{}", loc, panic_class(&msg)), || det(*n, json!({"message": msg})));
                                break;
                            }
                            Ok(out) => {
                                if &out != expected {
                                    let i = out.iter().zip(expected.iter()).position(|(a, b)| a != b).unwrap_or(0);
                                    ctx.violation(format!("C08|real rayon|{:?}|{:?}|result differs from the single-threaded result", body, pt), || det(*n, json!({"first_differing_byte": i, "repeat": rep})));
                                    break;
                                }
                            }
                        }
                    }
                }
                ctx.outcome(fnv1(&expected));
                ctx.class(((body as u64) << 8) | ((pt as u64) << 4) | c.be as u64);
                ctx.nontrivial += 1;
                if cases == 1 || cases % 97 == 0 {
                    ctx.samples.push(json!({"real_rayon_case": det(0, json!({"pool_sizes": ns, "repeats": repeats}))}));
                }
            }
        }
    }
    ctx.samples.truncate(3);
    let mut rep = Report::default();
    rep.absorb_ctx(ctx);
    rep.cases = cases;
    rep.planned = cases;
    rep.spaces.push(json!({"space": if tsan { "auxiliary: the same bodies under the real rayon with ThreadSanitizer (free-running race detection)" } else { "part 4: the same bodies under the real rayon, pool sizes 1..32 and above, repeated runs" }, "cases": cases, "pool_sizes": ns, "repeats": repeats, "wall_s": t0.elapsed().as_secs_f64()}));
    eprintln!("[C08 real rayon] cases {} runs {} violations {} {:.1}s", cases, rep.ops, rep.sig_counts.len(), t0.elapsed().as_secs_f64());
    let mut v = report_to_json(&rep);
    v["planned"] = json!(rep.planned);
    v["spaces"] = json!(rep.spaces);
    println!("{}", v);
}
