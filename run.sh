#!/bin/bash
# run.sh <Cxx> <quick|thorough>         run the check for one property
# run.sh <Cxx> --replay <file>          re-execute one recorded case
# run.sh --setup                        build every harness binary (MANIFEST.setup_cmd)
#
# Always rebuilds from /repo's current working tree (cargo decides what is stale) with
# RUSTFLAGS="--cfg fir_verif" (set in each workspace's .cargo/config.toml).
# exit 0: property held on everything explored (known findings are printed, not failed)
# exit 1: VIOLATION line(s) printed
# exit 2: MACHINERY-ERROR (build failure, engine crash, vacuous run) - never a verdict
set -u
export CARGO_NET_OFFLINE=true
ROOT=/verif
TGT=$ROOT/.target
mkdir -p "$TGT/tmp" "$ROOT/evidence"

BOTH_PROFILES="C03 C04 C05 C14"

build_harness() { # $1 = profile
  local prof=$1 log="$TGT/tmp/build_harness_$1.log"
  if ! (cd $ROOT/harness && cargo build --offline --profile "$prof" >"$log" 2>&1); then
    echo "MACHINERY-ERROR harness build ($prof) failed; see $log" >&2
    grep -E "^error" -A8 "$log" | head -40 >&2
    exit 2
  fi
}

build_ws() { # $1 = workspace dir, $2 = profile
  local ws=$1 prof=$2 log="$TGT/tmp/build_$1_$2.log"
  if ! (cd $ROOT/$ws && cargo build --offline --profile "$prof" >"$log" 2>&1); then
    echo "MACHINERY-ERROR $ws build ($prof) failed; see $log" >&2
    grep -E "^error" -A8 "$log" | head -40 >&2
    exit 2
  fi
}

build_tsan() { # auxiliary: real-rayon bodies under ThreadSanitizer (nightly + build-std); optional
  local log="$TGT/tmp/build_rayonh_tsan.log"
  if ! (cd $ROOT/rayonh && RUSTFLAGS="--cfg fir_verif -Zsanitizer=thread" CARGO_TARGET_DIR=$TGT/rayonh-tsan \
        cargo +nightly build -Zbuild-std --target x86_64-unknown-linux-gnu --release --offline >"$log" 2>&1); then
    echo "note: ThreadSanitizer build of rayonh failed (auxiliary pass will be skipped); see $log" >&2
    rm -f $TGT/rayonh-tsan/x86_64-unknown-linux-gnu/release/c08rayon
  fi
}

needs_dbg() { case " $BOTH_PROFILES " in *" $1 "*) return 0;; *) return 1;; esac; }

if [ "${1:-}" = "--setup" ]; then
  build_harness release
  build_harness dbg
  build_ws loomh release
  build_ws loomh dbg
  build_ws rayonh release
  build_tsan
  echo "setup ok"
  exit 0
fi

ID=${1:?property id}
MODE=${2:-quick}

if [ "$MODE" = "--replay" ]; then
  FILE=${3:?replay file}
  TIER=$(jq -r '.tier // "quick"' "$FILE")
  PROF=$(jq -r '.detail.profile // "release"' "$FILE")
  build_harness "$PROF"
  exec "$TGT/harness/$PROF/firmc" "$ID" "$TIER" --replay "$FILE"
fi

TIER=${VERIF_TIER:-$MODE}
case "$TIER" in quick|thorough) ;; *) echo "usage: run.sh <Cxx> <quick|thorough>" >&2; exit 2;; esac

build_harness release
if needs_dbg "$ID"; then build_harness dbg; fi

if [ "$ID" = "C13" ] || [ "$ID" = "C05" ]; then
  build_ws rayonh release
fi
if [ "$ID" = "C08" ]; then
  build_ws loomh release
  build_ws loomh dbg
  build_ws rayonh release
  build_tsan
fi
exec "$TGT/harness/release/firmc" "$ID" "$TIER"
